"""C13 - The application sees exactly the statements it must handle, once, in order."""
from __future__ import annotations

import struct

import core
import client as cl
import impl
import pk

HEADER = """From Coq Require Import List NArith Bool String.
From MM Require Import Model.Vars Model.Route Gen.FactsRoute.
Import ListNotations. Open Scope N_scope.
Definition hq (stmts : list stmt) (db : option str) :=
  let '(se, calls, res) := handle_query catalog_dbs session_middlewares stmts (mk_sess db) in
  (database se, map (fun c => (c_index c, c_db c)) calls, res).
"""


def S(s: str):
    return "[" + ";".join(str(ord(c)) for c in s) + "]"


def opt(s):
    return "None" if s is None else f"(Some {S(s)})"


USER_DBS = ["db", "shop", "Other"]
CATALOG_DBS = ["information_schema", "INFORMATION_SCHEMA", "mysql", "Information_Schema"]
CATALOG_TABLES = {"information_schema": ["tables", "schemata", "columns"], "mysql": ["user"]}


def user_table(rng, current_is_catalog):
    """(sql, db part): qualified or not; unqualified only counts as a user table if the current db is not a catalog db"""
    if rng.random() < 0.5 or current_is_catalog:
        d = rng.choice(USER_DBS)
        return f"{d}.{rng.choice(['t', 'u', 'orders'])}", d
    return rng.choice(["t", "u", "orders"]), None


def catalog_table(rng, current):
    d = rng.choice(CATALOG_DBS)
    t = rng.choice(CATALOG_TABLES[d.lower()])
    if current is not None and current.lower() == d.lower() and rng.random() < 0.4:
        return t, None, d.lower(), t
    return f"{d}.{t}", d, d.lower(), t


CAT_COL = {"tables": "table_name", "schemata": "schema_name", "columns": "column_name", "user": "User"}


def gen_stmt(rng, current):
    """returns (sql, coq stmt term, label 'lib'|'app', new current db).  `current` = default database before it."""
    cur_cat = current is not None and current.lower() in ("information_schema", "mysql")
    r = rng.random()
    if r < 0.08:
        return rng.choice(["SET sql_mode = 'A'", "SET NAMES utf8mb4", "SET autocommit = 1, wait_timeout = 5", "SET @@session.sql_mode = 'B'"]), "(mk_stmt KSet [])", "lib", current
    if r < 0.16:
        d = rng.choice(USER_DBS + ["information_schema", "mysql", "db"])
        return f"USE {d}", f"(mk_stmt (KUse {S(d)}) [])", "lib", d
    if r < 0.19:
        return rng.choice(["KILL 4242", "KILL QUERY 4242", "KILL CONNECTION 4243"]), "(mk_stmt KKill [])", "lib", current
    if r < 0.25:
        return rng.choice(["SHOW VARIABLES", "SHOW DATABASES", "SHOW STATUS", "SHOW WARNINGS", "SHOW COLUMNS FROM t FROM db", "SHOW TABLES FROM db",
                           "SHOW VARIABLES LIKE 'sql%'", "SHOW INDEX FROM t FROM db"]), "(mk_stmt KShow [])", "lib", current
    if r < 0.28:
        return rng.choice(["DESCRIBE db.t", "DESC db.t", "EXPLAIN db.t"]), "(mk_stmt KDescribeTable [])", "lib", current
    if r < 0.34:
        k, sql = rng.choice([("KBegin", "BEGIN"), ("KBegin", "START TRANSACTION"), ("KBegin", "START TRANSACTION READ ONLY"), ("KCommit", "COMMIT"),
                             ("KRollback", "ROLLBACK"), ("KCommit", "COMMIT AND CHAIN")])
        return sql, f"(mk_stmt {k} [])", "lib", current
    if r < 0.46:
        sql = rng.choice(["SELECT 1", "SELECT 1 + 1 AS x", "SELECT 'a'", "SELECT 1 WHERE 1 = 1", "SELECT DISTINCT 1", "SELECT 1 ORDER BY 1", "SELECT 1 LIMIT 1",
                          "SELECT @@sql_mode", "SELECT NOW()", "SELECT (SELECT 2)", "SELECT CONNECTION_ID()", "SELECT 1, 2 GROUP BY 1", "SELECT 1 HAVING 1 = 1",
                          "SELECT /*+ SET_VAR(sql_mode = 'H') */ @@sql_mode"])
        return sql, "(mk_stmt (KSelect true) [])", "lib", current
    if r < 0.58:
        # reads catalog databases only
        shape = rng.choice(["one", "join", "union", "sub", "where", "cte", "scalar-sub"])
        a_sql, a_db, a_ldb, a_t = catalog_table(rng, current)
        b_sql, b_db, b_ldb, b_t = catalog_table(rng, current)
        ca, cb = CAT_COL[a_t], CAT_COL[b_t]
        if shape == "cte" and a_db is not None:
            # a CTE whose body reads a catalog table: the reference to the CTE itself is not a table of any database
            return (f"WITH c AS (SELECT {ca} FROM {a_sql}) SELECT {ca} FROM c", f"(mk_stmt (KSelect false) [{opt(a_db)}])", "lib", current)
        if shape == "scalar-sub":
            # no FROM of its own, but a subquery that reads a (catalog) table: not a static query - the catalog rule answers it
            return f"SELECT (SELECT COUNT(*) FROM {a_sql}) AS n", f"(mk_stmt (KSelect false) [{opt(a_db)}])", "lib", current
        if shape in ("one", "cte"):
            return f"SELECT {ca} FROM {a_sql}", f"(mk_stmt (KSelect false) [{opt(a_db)}])", "lib", current
        if shape == "where":
            return f"SELECT {ca} FROM {a_sql} WHERE {ca} <> 'zz'", f"(mk_stmt (KSelect false) [{opt(a_db)}])", "lib", current
        if shape == "join":
            return (f"SELECT x.{ca} FROM {a_sql} AS x JOIN {b_sql} AS y ON x.{ca} = y.{cb}", f"(mk_stmt (KSelect false) [{opt(a_db)}; {opt(b_db)}])", "lib", current)
        if shape == "union":
            return (f"SELECT {ca} FROM {a_sql} UNION SELECT {cb} FROM {b_sql}", f"(mk_stmt KSetOp [{opt(a_db)}; {opt(b_db)}])", "lib", current)
        return (f"SELECT s.{ca} FROM (SELECT {ca} FROM {a_sql}) AS s", f"(mk_stmt (KSelect false) [{opt(a_db)}])", "lib", current)
    if r < 0.8:
        # application SELECTs: user tables, joins, subqueries, unions, mixed with catalog tables
        shape = rng.choice(["one", "join", "sub", "union", "mixed-join", "mixed-sub", "cte", "scalar-sub", "exists-sub", "where-in-sub", "scalar-mixed"])
        a_sql, a_db = user_table(rng, cur_cat)
        b_sql, b_db = user_table(rng, cur_cat)
        c_sql, c_db, _, c_t = catalog_table(rng, None)
        # a SELECT without a FROM of its own whose subquery reads a user table reads a user table: the application's
        if shape == "scalar-sub":
            return f"SELECT (SELECT MAX(a) FROM {a_sql}) AS m", f"(mk_stmt (KSelect false) [{opt(a_db)}])", "app", current
        if shape == "exists-sub":
            return f"SELECT EXISTS (SELECT 1 FROM {a_sql} WHERE a = 1) AS e", f"(mk_stmt (KSelect false) [{opt(a_db)}])", "app", current
        if shape == "where-in-sub":
            return f"SELECT 1 WHERE 1 IN (SELECT a FROM {a_sql})", f"(mk_stmt (KSelect false) [{opt(a_db)}])", "app", current
        if shape == "scalar-mixed":
            return (f"SELECT (SELECT COUNT(*) FROM {c_sql}) + (SELECT MAX(a) FROM {a_sql}) AS s", f"(mk_stmt (KSelect false) [{opt(c_db)}; {opt(a_db)}])", "app", current)
        if shape == "one":
            return f"SELECT a FROM {a_sql} WHERE a > 1", f"(mk_stmt (KSelect false) [{opt(a_db)}])", "app", current
        if shape == "join":
            return f"SELECT x.a FROM {a_sql} AS x JOIN {b_sql} AS y ON x.a = y.a", f"(mk_stmt (KSelect false) [{opt(a_db)}; {opt(b_db)}])", "app", current
        if shape == "sub":
            return f"SELECT s.a FROM (SELECT a FROM {a_sql}) AS s", f"(mk_stmt (KSelect false) [{opt(a_db)}])", "app", current
        if shape == "union":
            return f"SELECT a FROM {a_sql} UNION SELECT a FROM {b_sql}", f"(mk_stmt KSetOp [{opt(a_db)}; {opt(b_db)}])", "app", current
        if shape == "mixed-join":
            return (f"SELECT x.a FROM {a_sql} AS x JOIN {c_sql} AS y ON x.a = y.{CAT_COL[c_t]}", f"(mk_stmt (KSelect false) [{opt(a_db)}; {opt(c_db)}])", "app", current)
        if shape == "mixed-sub":
            return (f"SELECT a FROM {a_sql} WHERE a IN (SELECT {CAT_COL[c_t]} FROM {c_sql})", f"(mk_stmt (KSelect false) [{opt(a_db)}; {opt(c_db)}])", "app", current)
        return f"WITH c AS (SELECT a FROM {a_sql}) SELECT a FROM c", None, "app", current
    if r < 0.93:
        t, _ = user_table(rng, True)
        sql = rng.choice([f"INSERT INTO {t} VALUES (1)", f"UPDATE {t} SET a = 1", f"DELETE FROM {t} WHERE a = 1", f"CREATE TABLE {t}x (a INT)", f"DROP TABLE {t}x",
                          f"ALTER TABLE {t} ADD b INT", f"TRUNCATE TABLE {t}", "CALL p()", f"INSERT INTO {t} SELECT a FROM db.u",
                          # data definition / manipulation whose embedded query reads catalog tables only: still the application's
                          f"INSERT INTO {t} SELECT table_name FROM information_schema.tables",
                          f"CREATE TABLE {t}snap AS SELECT * FROM information_schema.columns",
                          f"CREATE VIEW {t}v AS SELECT schema_name FROM information_schema.schemata",
                          f"INSERT INTO {t} (a) SELECT 1 FROM mysql.user"])
        return sql, "(mk_stmt KOther [])", "app", current
    t, _ = user_table(rng, True)
    # EXPLAIN / DESCRIBE of a statement - a SELECT, a UNION, a parenthesised query, DML: the application's (only the
    # description of a TABLE is the library's)
    return rng.choice([f"EXPLAIN SELECT a FROM {t}", f"DESCRIBE SELECT a FROM {t}", f"EXPLAIN SELECT a FROM {t} UNION SELECT a FROM db.u",
                       f"DESCRIBE SELECT a FROM {t} UNION ALL SELECT 1", f"EXPLAIN (SELECT a FROM {t})", f"EXPLAIN FORMAT=JSON SELECT a FROM {t}",
                       f"EXPLAIN INSERT INTO {t} VALUES (1)", f"EXPLAIN UPDATE {t} SET a = 1", f"EXPLAIN DELETE FROM {t} WHERE a = 1"]), "(mk_stmt KDescribeSelect [])", "app", current


class RouteSession(impl.Session):
    LOG = None

    async def query(self, expression, sql, attrs):
        self.LOG.append((sql, dict(attrs), self.database))
        return [(f"app-{len(self.LOG)}",)], ["marker"]

    async def schema(self):
        return {"db": {"t": {"a": "INT"}, "u": {"a": "INT"}}, "shop": {"orders": {"a": "INT"}}}


class PickySession(RouteSession):
    """an application whose use() hook refuses databases it does not know (the library calls it for USE and COM_INIT_DB)"""

    async def use(self, database):
        if database in ("nosuch", "forbidden"):
            from mysql_mimic.errors import MysqlError
            raise MysqlError(f"Unknown database '{database}'", 1049)
        await super().use(database)


def run_history(rng, nops, via_prepared):
    """one connection: database selections and multi-statement texts; returns (problem, model cases)"""
    env = impl.Env(own_sleep=False)
    try:
        log = []
        RouteSession.LOG = log
        made = []

        picky = rng.random() < 0.5
        PickySession.LOG = log

        def factory():
            made.append(PickySession() if picky else RouteSession())
            return made[-1]

        srv = impl.make_server(env, factory)
        c = impl.Conn(env, srv, cid=0)
        env.settle(); c.take()
        db0 = rng.choice([None, "db", "shop", "information_schema"])
        caps = cl.BASE_CAPS | cl.CLIENT_QUERY_ATTRIBUTES | (cl.CLIENT_CONNECT_WITH_DB if db0 else 0)
        c.feed(cl.frame(cl.handshake_response(user=b"u", caps=caps, db=(db0 or "").encode()), 1))
        c.take()
        sess = made[0]
        current = db0
        cases = []
        for _ in range(nops):
            r = rng.random()
            if picky and rng.random() < 0.15:
                # a database selection the application refuses - alone, or after one it accepts in the same text: answered
                # with ERR, and the default database is the last one that WAS selected
                bad = rng.choice(["nosuch", "forbidden"])
                how = rng.choice(["use", "init_db", "use-after-use"])
                del log[:]
                if how == "init_db":
                    c.feed(cl.frame(bytes([cl.COM_INIT_DB]) + bad.encode(), 0))
                elif how == "use":
                    c.feed(cl.frame(bytes([cl.COM_QUERY]) + pk.encode_com_query([], f"USE {bad}".encode()), 0))
                else:
                    good = rng.choice(["db", "shop", "information_schema"])
                    c.feed(cl.frame(bytes([cl.COM_QUERY]) + pk.encode_com_query([], f"USE {good}; USE {bad}; SELECT a FROM t".encode()), 0))
                    current = good
                rep = cl.split_raw(c.take())
                if not rep or rep[-1][1][:1] != b"\xff" or log:
                    return dict(problem="a database selection the application refuses was not answered with ERR alone", how=how, database=bad,
                                reply=[p[:1].hex() for _, p in rep], application_calls=len(log)), cases
                if (sess.database or None) != current:
                    return dict(problem="default database after a selection the application REFUSED", how=how, refused=bad, expected=current, got=sess.database), cases
                continue
            if r < 0.12:
                d = rng.choice(["db", "shop", "mysql", "information_schema"])
                c.feed(cl.frame(bytes([cl.COM_INIT_DB]) + d.encode(), 0)); c.take()
                current = d
                if sess.database != current:
                    return dict(problem="default database after COM_INIT_DB", expected=current, got=sess.database), cases
                continue
            if r < 0.2:
                d = rng.choice(["db", "shop", ""])
                payload = bytes([cl.COM_CHANGE_USER]) + b"u\0" + b"\0" + d.encode() + b"\0" + struct.pack("<H", 45) + b"mysql_native_password\0"
                c.feed(cl.frame(payload, 0)); c.take()
                current = d or None
                if (sess.database or None) != current:
                    return dict(problem="default database after COM_CHANGE_USER", expected=current, got=sess.database), cases
                continue
            # a text of 1-5 statements
            stmts, expected, cur = [], [], current
            n = rng.choice([1, 1, 2, 3, 5])
            for i in range(n):
                sql, term, label, new = gen_stmt(rng, cur)
                stmts.append((sql, term, label, cur))
                cur = new
            # statements separated by ';' - with or without white space, with a comment behind it -, the text ending in
            # nothing, a ';', or a ';' followed by a comment (what mysqldump and hand-written scripts send): a comment is
            # no statement
            seps = ["; ", "; ", "; ", ";", " ;\n", "; /* c */ ", ";\n-- note\n"]
            text = stmts[0][0] + "".join(rng.choice(seps) + s[0] for s in stmts[1:])
            text += rng.choice(["", "", "", "", ";", "; -- done", "; /* c */", " ; # c", ";\n"])
            attrs = {"k": str(rng.randint(0, 99))}
            del log[:]
            attr = pk.P(b"k", pk.T_VAR_STRING, False, attrs["k"].encode())
            if via_prepared and ";" not in text and "?" not in text:
                c.feed(cl.frame(bytes([cl.COM_STMT_PREPARE]) + text.encode(), 0))
                rep = cl.split_raw(c.take())
                if rep[0][1][:1] == b"\xff":
                    return dict(problem="prepare refused", sql=text, error=rep[0][1][9:60].decode("latin1")), cases
                sid = rep[0][1][1:5]
                c.feed(cl.frame(bytes([cl.COM_STMT_EXECUTE]) + pk.encode_execute(True, struct.unpack("<I", sid)[0], 0x08, [], [attr]), 0))
            else:
                c.feed(cl.frame(bytes([cl.COM_QUERY]) + pk.encode_com_query([attr], text.encode()), 0))
            rep = cl.split_raw(c.take())
            want = [(text, attrs, s[3]) for s in stmts if s[2] == "app"]
            got = [(q, a, d or None) for q, a, d in log]
            want = [(q, a, d or None) for q, a, d in want]
            if rep and rep[0][1][:1] == b"\xff":
                return dict(problem="a generated text was answered with an error", sql=text, error=rep[0][1][9:120].decode("latin1", "replace"), database=current,
                            application_calls=len(got)), cases
            if got != want:
                return dict(problem="the application did not receive exactly the statements it must handle", sql=text, database_before=current,
                            expected_calls=[(d,) for _, _, d in want], got_calls=[(q[:40], a, d) for q, a, d in got],
                            labels=[s[2] for s in stmts]), cases
            # the result of the last statement
            last_app = stmts[-1][2] == "app"
            marker = f"app-{len(log)}".encode()
            has_marker = any(marker in p for _, p in rep)
            if last_app != has_marker:
                return dict(problem="the client did not receive the result of the last statement", sql=text, last_is_application=last_app), cases
            current = cur
            if (sess.database or None) != current:
                return dict(problem="default database after the text", sql=text, expected=current, got=sess.database), cases
            if all(s[1] is not None for s in stmts):
                cases.append((stmts[0][3], [s[1] for s in stmts], [i for i, s in enumerate(stmts) if s[2] == "app"], [s[3] for s in stmts if s[2] == "app"],
                              current, stmts[-1][2], text))
        c.eof()
        return None, cases
    finally:
        env.close()


def command_fallback_probe():
    """valid MySQL spellings of SHOW and SET that sqlglot's MySQL grammar does not know come out of the parser as a generic
    exp.Command; the SHOW / SET middlewares test for exp.Show / exp.Set only.  -> the spellings that reached the application"""
    import asyncio, logging
    logging.getLogger("sqlglot").setLevel(logging.ERROR)      # ("contains unsupported syntax. Falling back to parsing as a 'Command'")
    calls = []

    class S(impl.Session):
        async def query(self, expression, sql, attrs):
            calls.append(sql)
            return [(1,)], ["a"]

        async def schema(self):
            return {"db": {"t": {"a": "INT"}}}
    reached = []
    loop = asyncio.new_event_loop()
    try:
        for sql in ("SHOW FIELDS FROM t", "SHOW KEYS FROM t", "SHOW INDEXES FROM t", "SHOW LOCAL VARIABLES", "SHOW CHAR SET", "SHOW CREATE SCHEMA db",
                    "SHOW EXTENDED COLUMNS FROM t", "SET ROLE r", "SET CHAR SET utf8mb4", "SET PASSWORD FOR root = 'x'", "SET LOCAL TRANSACTION READ ONLY"):
            sess = S()
            sess.database = "db"
            del calls[:]
            try:
                loop.run_until_complete(sess.handle_query(sql, {}))
            except Exception:  # noqa  (refused by the library: it did not reach the application)
                pass
            if calls:
                reached.append(sql)
    finally:
        loop.close()
    return reached


def run(ctx: core.Ctx):
    rng = ctx.rng
    pr = core.check_proofs(ctx, "Props/C13", headers=[HEADER])
    witness, disagreements = None, []
    nh = 80 if ctx.quick else 2500
    cases = []
    labels = {}
    for h in range(nh):
        problem, cs = run_history(rng, rng.choice([4, 8, 14]), via_prepared=(h % 3 == 2))
        cases += cs
        if problem and witness is None:
            witness = dict(kind="routing", **{k: (v if isinstance(v, (str, int, bool, type(None))) else repr(v)[:400]) for k, v in problem.items()})
    ctx.evals += len(cases)
    # the model on the same statement lists (classified by the grammar that generated them)
    terms = [f"hq {core.coq_list(ts)} {opt(db0)}" for db0, ts, _, _, _, _, _ in cases]
    try:
        model = core.run_coq_terms(ctx, "c13m", HEADER, terms, shard=150)
        for (db0, ts, idx, dbs, final, last, text), m in zip(cases, model):
            mdb, mcalls, mres = m
            mdb = None if mdb == "None" else "".join(chr(x) for x in mdb[1])
            mc = [(i, None if d == "None" else "".join(chr(x) for x in d[1])) for i, d in mcalls]
            want = list(zip(idx, [d or None for d in dbs]))
            mc = [(i, d or None) for i, d in mc]
            mlast = "app" if isinstance(mres, tuple) and mres[0] == "RApp" else "lib"
            if mc != want or (mdb or None) != (final or None) or mlast != last:
                disagreements.append(dict(kind="route", sql=text, database=db0, impl=dict(calls=want, db=final, last=last), model=dict(calls=mc, db=mdb, last=mlast)))
    except Exception as e:  # noqa
        disagreements.append(dict(kind="model-not-evaluable", error=str(e)[-500:]))
    reached = command_fallback_probe()
    ctx.evals += 11
    if reached:
        core.report_violation(ctx, "SHOW / SET spellings outside sqlglot's grammar reach the application",
                              dict(kind="command-fallback", reached_the_application=reached), key="show-set-command-fallback-reaches-application")
    if witness is not None:
        core.report_violation(ctx, "the application does not see exactly the statements it must handle", witness)
    if (not pr["ok"] or disagreements) and not ctx.violations:
        core.report_violation(ctx, "proof obligation or model/implementation correspondence no longer checks",
                              dict(kind="unproved", broken=core.proof_failure_summary(ctx), disagreements=disagreements[:3]),
                              no_input=True)
    if not ctx.quick and pr["ok"]:
        core.coqchk(ctx, "Props/C13")
    core.write_evidence(
        ctx,
        rule="connections with a history of database selections (handshake with / without database, COM_INIT_DB, USE, COM_CHANGE_USER, incl. "
             "the catalog databases) and texts of 1-5 statements joined by ';' drawn from a grammar that labels each statement itself: "
             "SET / USE / KILL / SHOW / DESCRIBE table / BEGIN / START TRANSACTION / COMMIT / ROLLBACK, FROM-less SELECTs (with WHERE, "
             "DISTINCT, ORDER BY, GROUP BY, HAVING, LIMIT, hints, subqueries, functions), SELECTs over catalog tables only (qualified in any "
             "case, unqualified under a catalog default database, JOIN, UNION, subquery), application SELECTs (FROM / JOIN / subquery / "
             "UNION / CTE over user tables, mixed user+catalog), DML / DDL / CALL, EXPLAIN / DESCRIBE SELECT; sent by COM_QUERY with a "
             "query attribute and (every third connection, single statements) by prepare / execute. Observed: the arguments of every "
             "application call (SQL text, attributes, default database), the result the client receives, session.database after each "
             "command; compared with the grammar's labels and with Model/Route.v on the same statement lists. distinct = texts",
        samples=[dict(text=cases[0][6][:200] if cases else "")], distinct=len(cases),
        extra=dict(histories=nh, texts=len(cases), disagreements=len(disagreements)),
        assumptions=["SQL text -> statement kind / tables is sqlglot's parser and utils.find_tables (exercised, not modelled): the grammar "
                     "supplies the classification given to the model", "DATABASE() / VERSION() / CURRENT_USER: sqlglot 30 parses them into nodes the "
                     "library's function table does not know (pre-existing failures of the pinned suite); they are not generated"],
    )
