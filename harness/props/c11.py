"""C11 - Server-side cursors deliver every row exactly once, in order."""
from __future__ import annotations

import itertools

import core
import lockstep as ls

HEADER = ls.HEADER


def fetch_observations(d: ls.Driver):
    """per statement id: list of (requested, [row indices], flag) for each fetch after the latest cursor execute"""
    res = {}
    cur = None
    def flush():
        nonlocal cur
        if cur is not None:
            cmd, pk = cur
            rows = [a[1] for a in pk if isinstance(a, tuple) and a[0] == "PRow"]
            term = [a for a in pk if isinstance(a, tuple) and a[0] in ("PEof", "POk")]
            err = [a for a in pk if isinstance(a, tuple) and a[0] == "PErr"]
            flag = (term[-1][-1] if term else None)
            res.setdefault(cmd[1], []).append(("fetch", cmd[2], rows, flag, bool(err)))
            cur = None
    for ev, ob, cmd in zip(d.events, d.obs, d.cmds):
        if cmd is not None:
            flush()
            if cmd[0] == "execute" and cmd[2]:
                res.setdefault(cmd[1], []).append(("open",))
            if cmd[0] in ("reset", "close"):
                res.setdefault(cmd[1], []).append(("discard",))
            if cmd[0] == "fetch":
                cur = (cmd, [])
        if cur is not None:
            cur[1].extend(a for o in ob[0] if isinstance(o, tuple) and o[0] == "OWrite" for q, a, _ in o[1])
    flush()
    return res


def oracle_program(n, sizes, obs):
    """the property on one statement: rows 0..k-1 in order, each fetch filled unless exhausted, last-row flag only then"""
    pos = 0
    for (want, rows, flag, err) in obs:
        exp = list(range(pos, min(n, pos + want)))
        if err:
            return f"fetch of {want} rows at position {pos} answered with ERR"
        if rows != exp:
            return f"fetch of {want} rows at position {pos} of {n} returned rows {rows}, expected {exp}"
        pos += len(exp)
        last = bool(flag & 128) if flag is not None else None
        cur = bool(flag & 64) if flag is not None else None
        if (len(exp) < want) != last or cur == last:
            return f"fetch of {want} rows at position {pos - len(exp)} of {n}: status flags {flag} (last-row-sent must be set iff the fetch could not be filled)"
    return None


def general_oracle(d: ls.Driver):
    """the property on an arbitrary program: per statement, the fetches after each cursor execute deliver the rows
    0.. in order, filled unless exhausted, last-row-sent only then; unknown / closed ids and cursor-less statements -> ERR"""
    known = set()
    cur = {}          # sid -> [n, pos]
    pending = None    # (sid, cursor) of an execute waiting for the application
    fetch = None
    def check_fetch():
        nonlocal fetch
        if fetch is None:
            return None
        sid, want, pk = fetch
        fetch = None
        rows = [a[1] for a in pk if isinstance(a, tuple) and a[0] == "PRow"]
        term = [a for a in pk if isinstance(a, tuple) and a[0] in ("PEof", "POk")]
        err = [a for a in pk if isinstance(a, tuple) and a[0] == "PErr"]
        if sid not in known or sid not in cur:
            return None if err and not rows else f"fetch on statement {sid} without cursor answered {pk[:3]}"
        if isinstance(cur[sid], str):
            return None
        n, pos = cur[sid]
        exp = list(range(pos, min(n, pos + want)))
        if err:
            return f"fetch({sid}, {want}) at position {pos} of {n} answered with ERR"
        if rows != exp:
            return f"fetch({sid}, {want}) at position {pos} of {n} returned rows {rows}, expected {exp}"
        cur[sid][1] = pos + len(exp)
        flag = term[-1][-1] if term else None
        if flag is None or bool(flag & 128) != (len(exp) < want) or bool(flag & 64) == bool(flag & 128):
            return f"fetch({sid}, {want}) at position {pos} of {n}: status flags {flag}"
        return None
    for ev, ob, cmd in zip(d.events, d.obs, d.cmds):
        if cmd is not None:
            w = check_fetch()
            if w:
                return w
            pending = None
            if cmd[0] == "prepare":
                for o in ob[0]:
                    if isinstance(o, tuple) and o[0] == "OWrite":
                        for q, a, p in o[1]:
                            if isinstance(a, tuple) and a[0] == "PPrepOk":
                                known.add(a[1])
            elif cmd[0] == "execute" and cmd[1] in known:
                pending = (cmd[1], cmd[2])
                cur.pop(cmd[1], None)       # re-executing a statement discards its cursor - with or without a new one, whatever the outcome
            elif cmd[0] == "reset":
                cur.pop(cmd[1], None)
            elif cmd[0] == "close":
                cur.pop(cmd[1], None); known.discard(cmd[1])
            elif cmd[0] == "fetch":
                fetch = (cmd[1], cmd[2], [])
        elif ev.startswith("EvApp (OSet") and pending is not None:
            sid, cursor = pending
            pending = None
            if cursor and "IRaise" not in ev:
                cur[sid] = [ev.count("IRow"), 0]
            elif cursor:
                cur[sid] = "a source that raises: not judged"
        elif ev.startswith("EvApp") and pending is not None:
            pending = None
        if fetch is not None:
            fetch[2].extend(a for o in ob[0] if isinstance(o, tuple) and o[0] == "OWrite" for q, a, _ in o[1])
    return check_fetch()


def run_program(rng, n, sizes, asynchronous, depeof):
    d = ls.Driver(rng)
    d.handshake(True, depeof); d.decide("ASuccess"); d.app_result("void")
    d.payload(("prepare", 0))
    d.payload(("execute", 0, True))
    items = []
    for i in range(n):
        if asynchronous and i % 3 == 1:
            items.append(("suspend",))
        items.append(("row", i % 4))
    d.app_result("set", ncols=1, items=items, asynchronous=asynchronous)
    for f in sizes:
        d.payload(("fetch", 0, f))
        while d.blocked() == "row":
            d.simple("EvRowReady")
    d.close()
    return d


def run(ctx: core.Ctx):
    rng = ctx.rng
    pr = core.check_proofs(ctx, "Props/C11", headers=[HEADER])
    drivers, terms, meta = [], [], []
    # ---- exhaustive: n <= NMAX, every sequence of fetch sizes <= n+1 until exhaustion (plus one more fetch)
    NMAX = 4 if ctx.quick else 6
    def seqs(n, pos, acc):
        if pos >= n:
            for last in (1, n + 1):
                yield acc + [last]
            return
        for f in range(0, n + 2):
            if f == 0 and acc and acc[-1] == 0:
                continue
            yield from seqs(n, pos + f, acc + [f]) if f > 0 else ((acc + [0] + rest[len(acc) + 1:]) for rest in seqs(n, pos, acc + [0]))
    count = 0
    for n in range(0, NMAX + 1):
        for sz in seqs(n, 0, []):
            count += 1
            if ctx.quick and n == NMAX and count % 3:
                continue
            asyn = (count % 2 == 0)
            d = run_program(rng, n, sz, asyn, depeof=(count % 4 < 2))
            drivers.append(d); terms.append(ls.coq_term(d)); meta.append((n, sz))
    exhaustive = len(drivers)
    # ---- random: larger results, huge fetch sizes, several statements interleaved, reset / re-execute / close anywhere
    for _ in range(40 if ctx.quick else 800):
        n = rng.choice([5, 9, 17, 40, 120])
        sz = []
        tot = 0
        while tot <= n:
            f = rng.choice([0, 1, 2, 3, 7, n, n + 1, 2 ** 32 - 1, rng.randint(1, max(1, n))])
            sz.append(f); tot += f
        d = run_program(rng, n, sz, rng.random() < 0.5, rng.random() < 0.5)
        drivers.append(d); terms.append(ls.coq_term(d)); meta.append((n, sz))
    for _ in range(60 if ctx.quick else 1500):
        d = ls.Driver(rng)
        d.handshake(True, rng.random() < 0.5); d.decide("ASuccess"); d.app_result("void")
        for k in range(3):
            d.payload(("prepare", 0))
        lens = {}
        for _ in range(rng.randint(5, 25)):
            sid = rng.choice([0, 1, 2, 2, 9])
            r = rng.random()
            if r < 0.3:
                d.payload(("execute", sid, True))
                if d.blocked() == "app":
                    n = rng.choice([0, 1, 3, 6])
                    lens[sid] = n
                    d.app_result("set", ncols=1, items=[("row", 1)] * n, asynchronous=False)
            elif r < 0.42:
                # a re-execution that installs NO new cursor: without the cursor flag, or answered with no result, or refused
                how = rng.choice(["no-cursor-flag", "no-result", "refused"])
                d.payload(("execute", sid, how != "no-cursor-flag"))
                if d.blocked() == "app":
                    if how == "no-cursor-flag":
                        d.app_result("set", ncols=1, items=[("row", 1)] * rng.choice([0, 2]), asynchronous=False)
                    elif how == "no-result":
                        d.app_result("none")
                    else:
                        d.app_result("raise", raise_code=rng.choice([None, 1064]))
            elif r < 0.8:
                d.payload(("fetch", sid, rng.choice([0, 1, 2, 3, 10])))
            elif r < 0.9:
                d.payload(("reset", sid))
                if d.blocked() == "app":
                    d.app_result("void")
            else:
                d.payload(("close", sid))
        d.close()
        drivers.append(d); terms.append(ls.coq_term(d)); meta.append(None)
    model = core.run_coq_terms(ctx, "c11t", HEADER, terms, shard=60)
    disagreements, witness = [], None
    for d, m, mt in zip(drivers, model, meta):
        c = ls.compare(d, m)
        if c:
            disagreements.append(c)
        if witness is None:
            why = general_oracle(d)
            if why:
                witness = dict(kind="cursor-program", problem=why, events=[e[:70] for e in d.events][:60])
        if mt is not None and witness is None:
            n, sz = mt
            obs = [(o[1], o[2], o[3], o[4]) for o in fetch_observations(d).get(0, []) if o[0] == "fetch"]
            why = oracle_program(n, sz, obs)
            if why:
                witness = dict(kind="cursor", rows=n, fetch_sizes=sz, problem=why, deprecate_eof=d.depeof)
    if witness is not None:
        core.report_violation(ctx, "a cursor does not deliver every row exactly once, in order", witness)
    if (not pr["ok"] or disagreements) and not ctx.violations:
        core.report_violation(ctx, "proof obligation or model/implementation correspondence no longer checks",
                              dict(kind="unproved", broken=core.proof_failure_summary(ctx), disagreements=disagreements[:3]),
                              no_input=True)
    if not ctx.quick and pr["ok"]:
        core.coqchk(ctx, "Props/C11")
    core.write_evidence(
        ctx,
        rule=f"exhaustive: every result length n <= {NMAX} with every sequence of fetch sizes <= n+1 until exhaustion and one fetch "
             "beyond (sync and async sources, EOF and OK terminators); random: up to 120 rows, fetch sizes incl. 0 and 2^32-1; three "
             "statements interleaved with re-execute / reset / close / unknown ids anywhere; every run replayed step by step on "
             "Model/Conn.v; oracle: concatenated row indices and the last-row-sent flag. distinct = programs",
        samples=[dict(rows=meta[5][0], fetch_sizes=meta[5][1], events=drivers[5].events[5:12])], distinct=len(drivers),
        extra=dict(exhaustive_programs=exhaustive, random_programs=len(drivers) - exhaustive, disagreements=len(disagreements),
                   exhaustive=False),
        assumptions=["rows are recognised by the index the scripted source writes into them"],
    )
