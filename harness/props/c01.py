"""C01 - No command is served on a connection that has not authenticated."""
from __future__ import annotations

import core
import lockstep as ls

HEADER = ls.HEADER


def oracle(d: ls.Driver):
    """An authentication exchange (the handshake, or one opened by COM_CHANGE_USER) ends with OK or with ERR.  Once one
    has ended with ERR - a refusal, a provider / plugin failure, a malformed or mis-sequenced reply - nothing but ERR /
    close may follow and the application session receives no init / query / use / reset.  Before the first OK the session
    sees nothing but the user lookup."""
    failed_at = None
    in_exchange = True
    for i, (ev, ob) in enumerate(zip(d.events, d.obs)):
        if ev.startswith("EvPayload") and "CChangeUser" in ev and failed_at is None:
            in_exchange = True
        for o in ob[0]:
            if not isinstance(o, tuple):
                continue
            if o[0] == "OSess" and o[1] != "close":
                if failed_at is not None:
                    return dict(problem=f"session.{o[1]} called after the exchange ended in ERR", failed_at=d.events[failed_at], step=ev)
            if o[0] == "OWrite":
                for q, a, _ in o[1]:
                    is_err = isinstance(a, tuple) and a[0] == "PErr"
                    if failed_at is not None and not is_err:
                        return dict(problem=f"packet {a!r} sent after the exchange ended in ERR", failed_at=d.events[failed_at], step=ev)
                    if in_exchange and is_err and failed_at is None:
                        failed_at = i
                    if in_exchange and isinstance(a, tuple) and a[0] == "POk":
                        in_exchange = False
    # pre-auth: no session call other than get_user before the first success
    authed = False
    for ev, ob in zip(d.events, d.obs):
        if ev.split()[-1] == "ASuccess":
            authed = True
        if not authed:
            for o in ob[0]:
                if isinstance(o, tuple) and o[0] == "OSess" and o[1] not in ("get_user", "close"):
                    return dict(problem=f"session.{o[1]} before any successful authentication", step=ev)
    return None


def scripted(rng):
    """exchanges that end in ERR for another reason than a refusal, each followed by a command"""
    out = []
    for cu in (False, True):
        for first in ("ASwitch", "AMore"):
            for fault in ("EvBadSeq", "ARaise", "AForbidden", "EvBadSeq2"):
                d = ls.Driver(rng)
                d.handshake(True, rng.random() < 0.5)
                if cu:
                    d.decide("ASuccess"); d.app_result("void")
                    d.payload(("changeuser",))
                d.decide(first)
                if fault == "EvBadSeq2":
                    d.auth_reply("AMore"); d.simple("EvBadSeq")
                elif fault == "EvBadSeq":
                    d.simple("EvBadSeq")
                else:
                    d.auth_reply(fault)
                if d.blocked() == "read":
                    d.payload(("query",))
                    if d.blocked() == "app":
                        d.app_result("set", ncols=1, items=[("row", 1)])
                out.append(d)
    return out


def refusal_sweep(ctx, rng):
    """wire level, real Session and identity provider: a refused COM_CHANGE_USER - wrong password, unknown user, no-login user,
    unknown users whose names do not fit the results character set at every offset of the error message - ends the service:
    the next COM_QUERY never reaches the application and is answered by nothing but ERR / close"""
    import struct
    import client as cl
    import impl
    from mysql_mimic.auth import NativePasswordAuthPlugin, NoLoginAuthPlugin, IdentityProvider, User

    class IP(IdentityProvider):
        def __init__(self):
            self.users = {"alice": User(name="alice", auth_string=NativePasswordAuthPlugin.create_auth_string("pw"), auth_plugin="mysql_native_password"),
                          "carol": User(name="carol", auth_string=NativePasswordAuthPlugin.create_auth_string("pw")),          # no plugin named: the default one
                          "dave": User(name="dave", auth_string=NativePasswordAuthPlugin.create_auth_string("pw"), auth_plugin="no_such_plugin"),
                          "nologin": User(name="nologin", auth_plugin=NoLoginAuthPlugin.name)}

        def get_plugins(self):
            return [NativePasswordAuthPlugin(), NoLoginAuthPlugin()]

        async def get_user(self, username):
            return self.users.get(username)

    class S(impl.Session):
        LOG = None

        async def query(self, expression, sql, attrs):
            self.LOG.append((self.username, sql))
            return [(42,)], ["answer"]

    names = ["bob", "", "nologin", "alice"] + ["x" * k + "用户" for k in (list(range(0, 72, 3)) if ctx.quick else range(72))] + ["é" * 40, "x" * 200]
    settings = [None, "latin1", "ascii"]
    n = 0
    # the history before the refused exchange varies too: who logged in (an account bound to a plugin by name, one that names
    # none, one that names a plugin the provider does not have), and whether a successful COM_CHANGE_USER came first
    plan = []
    for setting in settings:
        for k, name in enumerate(names):
            if name in ("bob", "", "nologin", "alice"):
                plan += [(setting, name, login, proof, pre) for login in (b"alice", b"carol", b"dave") for proof in ("empty", "wrong")
                         for pre in (None, b"carol", b"alice")]
            else:
                plan.append((setting, name, (b"alice", b"carol", b"dave")[k % 3], ("wrong", "wrong", "empty")[(k // 3) % 3], (None, None, b"dave")[(k // 9) % 3]))
    for setting, name, login, proof, pre in plan:
        if True:
            env = impl.Env(own_sleep=False)
            try:
                log = []
                S.LOG = log
                srv = impl.make_server(env, S, identity_provider=IP())
                c = impl.Conn(env, srv)
                env.settle()
                nonce = cl.parse_handshake_v10(cl.split_raw(c.take())[0][1])["nonce"]
                c.feed(cl.frame(cl.handshake_response(user=login, auth=cl.native_scramble(b"pw", nonce), charset=45), 1))
                if cl.split_raw(c.take())[-1][1][:1] != b"\x00":
                    return dict(problem="the reference login itself was refused"), n
                if setting:
                    c.feed(cl.frame(bytes([cl.COM_QUERY]) + f"SET character_set_results = '{setting}'".encode(), 0)); c.take()
                if pre is not None:
                    ok = cl.native_scramble(b"pw", nonce)
                    c.feed(cl.frame(bytes([cl.COM_CHANGE_USER]) + pre + b"\0" + bytes([len(ok)]) + ok + b"\0" + struct.pack("<H", 45) + b"mysql_native_password\0", 0))
                    if cl.split_raw(c.take())[-1][1][:1] != b"\x00":
                        return dict(problem="a COM_CHANGE_USER with the right proof was refused", logged_in_as=login.decode(), user=pre.decode()), n
                resp = cl.native_scramble(b"wrong", nonce) if proof == "wrong" else b""
                cu = bytes([cl.COM_CHANGE_USER]) + name.encode("utf8") + b"\0" + bytes([len(resp)]) + resp + b"\0" + struct.pack("<H", 45) + b"mysql_native_password\0"
                c.feed(cl.frame(cu, 0))
                rep = cl.split_raw(c.take())
                n += 1
                if rep and rep[-1][1][:1] == b"\x00":
                    return dict(problem="a COM_CHANGE_USER without a valid proof was accepted", logged_in_as=login.decode(), then_changed_to=(pre or b"").decode(), user=name, proof=proof, results_charset=setting), n
                del log[:]
                if c.blocked_on() != "done":
                    c.feed(cl.frame(bytes([cl.COM_QUERY]) + b"SELECT answer FROM t", 0))
                rep2 = cl.split_raw(c.take())
                if log or any(p[:1] != b"\xff" for _, p in rep2):
                    return dict(problem="after a refused COM_CHANGE_USER the next query was served", logged_in_as=login.decode(), then_changed_to=(pre or b"").decode(), user=name, proof=proof, results_charset=setting,
                                refusal=[p[:40].hex() for _, p in rep], application_saw=repr(log), reply=[p[:12].hex() for _, p in rep2]), n
            finally:
                env.close()
    # a COM_CHANGE_USER that fails AFTER the requested identity was applied to the session but before any proof was looked at
    # (a collation whose character set has no codec: binary, dec8, ucs2 ...), with the right / a wrong / no proof, from clients
    # with and without CLIENT_PLUGIN_AUTH: answered with ERR, and then nothing is served - least of all under the other name
    for caps in (cl.BASE_CAPS, cl.BASE_CAPS & ~cl.CLIENT_PLUGIN_AUTH & ~cl.CLIENT_CONNECT_ATTRS):
        for coll in (63, 3, 35, 130):
            for target, secret in ((b"alice", b"pw"), (b"alice", b"wrong"), (b"root", b"wrong"), (b"nologin", b"")):
                env = impl.Env(own_sleep=False)
                try:
                    log = []
                    S.LOG = log
                    made = []

                    def fac():
                        made.append(S())
                        return made[-1]
                    srv = impl.make_server(env, fac, identity_provider=IP())
                    c = impl.Conn(env, srv)
                    env.settle()
                    nonce = cl.parse_handshake_v10(cl.split_raw(c.take())[0][1])["nonce"]
                    c.feed(cl.frame(cl.handshake_response(user=b"carol", auth=cl.native_scramble(b"pw", nonce), caps=caps, charset=45), 1))
                    if cl.split_raw(c.take())[-1][1][:1] != b"\x00":
                        continue
                    resp = cl.native_scramble(secret, nonce) if secret else b""
                    cu = bytes([cl.COM_CHANGE_USER]) + target + b"\0" + bytes([len(resp)]) + resp + b"secretdb\0" + struct.pack("<H", coll)
                    if caps & cl.CLIENT_PLUGIN_AUTH:
                        cu += b"mysql_native_password\0"
                    c.feed(cl.frame(cu, 0))
                    rep = cl.split_raw(c.take())
                    n += 1
                    if rep and rep[-1][1][:1] == b"\x00":
                        continue          # (the library found a codec for this collation and the proof was right: a legitimate change)
                    del log[:]
                    served = []
                    if c.blocked_on() != "done":
                        c.feed(cl.frame(bytes([cl.COM_QUERY]) + b"SELECT answer FROM t", 0))
                        served = [p for _, p in cl.split_raw(c.take()) if p[:1] != b"\xff"]
                    ext = made[0].variables.get("external_user") if made else None
                    if log or served or (c.blocked_on() != "done" and ext != "carol"):
                        return dict(problem="a COM_CHANGE_USER that failed before any proof was verified left the connection in service",
                                    collation=coll, client_plugin_auth=bool(caps & cl.CLIENT_PLUGIN_AUTH), requested_user=target.decode(),
                                    reply=[p[:40].hex() for _, p in rep][:2], application_saw=repr(log), external_user_now=ext,
                                    database_now=made[0].database if made else None), n
                finally:
                    env.close()
    # the handshake itself without a valid proof, for every way a client may present itself: with / without CLIENT_PLUGIN_AUTH
    # (a pre-5.5.7 client cannot be sent an auth switch), length-encoded proofs, a database in the handshake, announcing the
    # account's plugin / another one / none; requests for another proof are answered with a wrong one.  Refused, nothing served.
    capsets = [("base", cl.BASE_CAPS), ("no-plugin-auth", cl.BASE_CAPS & ~cl.CLIENT_PLUGIN_AUTH),
               ("lenenc", cl.BASE_CAPS | cl.CLIENT_PLUGIN_AUTH_LENENC), ("with-db", cl.BASE_CAPS | cl.CLIENT_CONNECT_WITH_DB),
               ("no-plugin-auth-with-db", (cl.BASE_CAPS & ~cl.CLIENT_PLUGIN_AUTH) | cl.CLIENT_CONNECT_WITH_DB)]
    for capname, caps in capsets:
        for plugin in (b"mysql_native_password", b"caching_sha2_password", b""):
            for user, resp_kind in ((b"alice", "empty"), (b"alice", "wrong"), (b"nologin", "empty"), (b"nologin", "wrong"), (b"bob", "wrong")):
                if not (caps & cl.CLIENT_PLUGIN_AUTH) and plugin != b"mysql_native_password":
                    continue
                env = impl.Env(own_sleep=False)
                try:
                    log = []
                    S.LOG = log
                    srv = impl.make_server(env, S, identity_provider=IP())
                    c = impl.Conn(env, srv)
                    env.settle()
                    nonce = cl.parse_handshake_v10(cl.split_raw(c.take())[0][1])["nonce"]
                    proof = b"" if resp_kind == "empty" else cl.native_scramble(b"no", nonce)
                    c.feed(cl.frame(cl.handshake_response(user=user, auth=proof, caps=caps, plugin=plugin, db=b"db", charset=45), 1))
                    rep = cl.split_raw(c.take())
                    n += 1
                    accepted = bool(rep) and rep[-1][1][:1] == b"\x00"
                    rounds = 0
                    while rep and rep[-1][1][:1] in (b"\xfe", b"\x01") and rounds < 3 and c.blocked_on() != "done":
                        rounds += 1       # asked for another proof: a wrong one again
                        c.feed(cl.frame(cl.native_scramble(b"still wrong", nonce), (rep[-1][0] + 1) % 256))
                        rep = cl.split_raw(c.take())
                        accepted = accepted or (bool(rep) and rep[-1][1][:1] == b"\x00")
                    served = []
                    for cmd in (bytes([cl.COM_QUERY]) + b"SELECT answer FROM t", bytes([cl.COM_PING]), bytes([cl.COM_QUERY]) + b"SELECT answer FROM t"):
                        if c.blocked_on() != "done":
                            c.feed(cl.frame(cmd, 0))
                            served += [p for _, p in cl.split_raw(c.take()) if p[:1] != b"\xff"]
                    if accepted or log or served or c.blocked_on() != "done":
                        return dict(problem="a handshake without a valid proof was accepted / the connection went on being served",
                                    client=capname, announced_plugin=plugin.decode(), user=user.decode(), proof=resp_kind, accepted=accepted,
                                    application_saw=repr(log), served=[p[:12].hex() for p in served][:4], connection=c.blocked_on()), n
                finally:
                    env.close()
    # identity providers whose plugin list holds several server plugins speaking the SAME client-side method (two
    # clear-password back ends; an any-client default next to mysql_no_login), each as default in turn: an account is
    # verified by the plugin it is bound to - the secret only the other back end accepts is refused, at the handshake and in
    # COM_CHANGE_USER, whatever plugin the client announces
    from mysql_mimic.auth import AbstractClearPasswordAuthPlugin, AuthPlugin, Success, Forbidden

    class Directory(AbstractClearPasswordAuthPlugin):
        name = "directory"

        async def check(self, username, password):
            return username if password == "dir-secret" else None

    class Vault(AbstractClearPasswordAuthPlugin):
        name = "vault"

        async def check(self, username, password):
            return username if password == "vault-secret" else None

    class Trust(AuthPlugin):
        name = "trust"
        client_plugin_name = None

        async def auth(self, auth_info=None):
            if not auth_info:
                auth_info = yield b"trust\0"
            yield Success(auth_info.username)

    def provider(plugins, users):
        class IP2(IdentityProvider):
            def get_plugins(self):
                return plugins

            async def get_user(self, username):
                return users.get(username)
        return IP2()

    configs = [
        ("directory-default", [Directory(), Vault()], dict(d=User(name="d", auth_plugin="directory"), v=User(name="v", auth_plugin="vault")),
         [(b"v", b"dir-secret\0"), (b"d", b"vault-secret\0"), (b"v", b"\0"), (b"nobody", b"dir-secret\0")], (b"d", b"dir-secret\0")),
        ("vault-default", [Vault(), Directory()], dict(d=User(name="d", auth_plugin="directory"), v=User(name="v", auth_plugin="vault")),
         [(b"v", b"dir-secret\0"), (b"d", b"vault-secret\0")], (b"v", b"vault-secret\0")),
        ("trust-default-next-to-no-login", [Trust(), NoLoginAuthPlugin()], dict(t=User(name="t", auth_plugin="trust"), svc=User(name="svc", auth_plugin=NoLoginAuthPlugin.name)),
         [(b"svc", b"anything\0"), (b"svc", b"")], (b"t", b"x\0")),
        ("native-default-next-to-trust-bound-elsewhere", [NativePasswordAuthPlugin(), NoLoginAuthPlugin(), Trust()],
         dict(a=User(name="a", auth_string=NativePasswordAuthPlugin.create_auth_string("pw"), auth_plugin="mysql_native_password"),
              svc=User(name="svc", auth_plugin=NoLoginAuthPlugin.name), t=User(name="t", auth_plugin="trust")),
         [(b"svc", b""), (b"svc", b"x\0"), (b"a", b"")], (b"t", b"x\0")),
    ]
    for cname, plugins, users, attempts, good in configs:
        for announced in (b"mysql_clear_password", b"mysql_native_password", b""):
            for route in ("handshake", "change-user"):
                for user, secret in attempts:
                    env = impl.Env(own_sleep=False)
                    try:
                        log = []
                        S.LOG = log
                        srv = impl.make_server(env, S, identity_provider=provider(plugins, users))
                        c = impl.Conn(env, srv)
                        env.settle()
                        c.take()

                        def exchange(first_reply):
                            """answer every request for more data with the same secret; -> accepted?"""
                            rep = first_reply
                            for _ in range(4):
                                if not rep or c.blocked_on() == "done":
                                    return False
                                head = rep[-1][1][:1]
                                if head == b"\x00":
                                    return True
                                if head == b"\xff":
                                    return False
                                c.feed(cl.frame(secret_now[0], (rep[-1][0] + 1) % 256))
                                rep = cl.split_raw(c.take())
                            return False

                        secret_now = [secret]
                        if route == "handshake":
                            c.feed(cl.frame(cl.handshake_response(user=user, auth=secret, plugin=announced, charset=45), 1))
                            accepted = exchange(cl.split_raw(c.take()))
                        else:
                            secret_now[0] = good[1]
                            c.feed(cl.frame(cl.handshake_response(user=good[0], auth=good[1], plugin=announced, charset=45), 1))
                            if not exchange(cl.split_raw(c.take())):
                                continue          # this client cannot log in with the reference account under this configuration: nothing to change from
                            secret_now[0] = secret
                            cu = bytes([cl.COM_CHANGE_USER]) + user + b"\0" + bytes([len(secret)]) + secret + b"\0" + struct.pack("<H", 45) + announced + b"\0"
                            c.feed(cl.frame(cu, 0))
                            accepted = exchange(cl.split_raw(c.take()))
                        n += 1
                        del log[:]
                        served = []
                        if c.blocked_on() != "done":
                            c.feed(cl.frame(bytes([cl.COM_QUERY]) + b"SELECT answer FROM t", 0))
                            served = [p for _, p in cl.split_raw(c.take()) if p[:1] != b"\xff"]
                        if accepted or log or served:
                            return dict(problem="an account was accepted with a secret its own plugin refuses / the connection was served afterwards",
                                        configuration=cname, route=route, announced_plugin=announced.decode(), user=user.decode(), secret=secret.decode("latin1"),
                                        accepted=accepted, application_saw=repr(log), served=[p[:12].hex() for p in served][:3]), n
                    finally:
                        env.close()
    return None, n


def run(ctx: core.Ctx):
    rng = ctx.rng
    pr = core.check_proofs(ctx, "Props/C01", headers=[HEADER])
    ntr = 300 if ctx.quick else 8000
    drivers, terms = [], []
    outcomes = {}
    for i in range(ntr):
        d = ls.Driver(rng)
        ls.random_walk(rng, d, rng.choice([12, 25, 40]), faults=(i % 4 == 3), kills=False, auth_variants=True)
        drivers.append(d)
        terms.append(ls.coq_term(d))
        for ev in d.events:
            if ev.startswith("EvDecide") or ev.startswith("EvAuthReply") or ev.startswith("EvHandshake"):
                k = " ".join(ev.split()[:1] + ev.split()[-1:])
                outcomes[k] = outcomes.get(k, 0) + 1
        d.close()
    for d in scripted(rng):
        drivers.append(d)
        terms.append(ls.coq_term(d))
        d.close()
    model = core.run_coq_terms(ctx, "c01t", HEADER, terms, shard=25)
    disagreements = []
    witness = None
    for d, m in zip(drivers, model):
        c = ls.compare(d, m)
        if c:
            disagreements.append(c)
        w = oracle(d)
        if w and witness is None:
            witness = dict(kind="unauthenticated-service", events=d.events[:30], **w)
    w, nsweep = refusal_sweep(ctx, rng)
    ctx.evals += nsweep
    if w and witness is None:
        witness = dict(kind="refusal-sweep", **w)
    if witness is not None:
        core.report_violation(ctx, "a connection that did not authenticate is served", witness)
    if (not pr["ok"] or disagreements) and not ctx.violations:
        core.report_violation(ctx, "proof obligation or model/implementation correspondence no longer checks",
                              dict(kind="unproved", broken=core.proof_failure_summary(ctx), disagreements=disagreements[:3]),
                              no_input=True)
    if not ctx.quick and pr["ok"]:
        core.coqchk(ctx, "Props/C01")
    core.write_evidence(
        ctx,
        rule="random walks over the real connection with a scripted identity provider (unknown user, provider failure, users bound to "
             "the default or to another plugin -> auth switch) and scripted plugins (success, forbidden, any number of more-data round "
             "trips, plugin failure), valid and truncated handshake responses, COM_CHANGE_USER with the same variants, followed by "
             "further commands; every 4th walk with socket faults; replayed on Model/Conn.v; oracle: no session call / non-ERR packet "
             "after a refused exchange; wire-level refusal sweep with the real provider and plugins over login histories (account bound "
             "to a plugin by name / naming none / naming an unknown one, with and without a successful COM_CHANGE_USER first) x targets "
             "(wrong password, unknown, no-login, names outside the results character set) x empty / wrong proofs, and handshakes "
             "without a valid proof for every client capability set. distinct = traces",
        samples=[dict(events=drivers[1].events[:10])], distinct=len(drivers),
        extra=dict(traces=len(drivers), exchange_outcomes=outcomes, disagreements=len(disagreements)),
        assumptions=["plugins are modelled as arbitrary decision sequences (C02 decides what the built-in plugins decide)",
                     "asyncio semantics as transcribed in Model/Conn.v"],
    )
