"""C07 - Malformed or hostile packets cannot hang, crash or wedge the server."""
from __future__ import annotations

import signal
import struct
import sys
import time

import core
import client as cl
import impl
import pk

from mysql_mimic import packets
from mysql_mimic.charset import CharacterSet, Collation
from mysql_mimic.types import Capabilities

HEADER = pk.HEADER + """From MM Require Import Gen.FactsPackets.
Definition cok (x : N) := existsb (N.eqb x) charset_collation_ids.
Definition hs (d : bytes) := parse_handshake_response cok constants_default_server_caps caps_of_word d.
Definition cu (w : N) (d : bytes) := parse_com_change_user cok (caps_of_word w) d.
"""


class Timeout(KeyboardInterrupt):
    pass


def _alarm(signum, frame):
    raise Timeout()


class deadline:
    def __init__(self, seconds):
        self.s = seconds

    def __enter__(self):
        self.old = signal.signal(signal.SIGALRM, _alarm)
        signal.setitimer(signal.ITIMER_REAL, self.s)

    def __exit__(self, *a):
        signal.setitimer(signal.ITIMER_REAL, 0)
        signal.signal(signal.SIGALRM, self.old)
        return False


def guarded(fn, *a, seconds=8):
    try:
        with deadline(seconds):
            return fn(*a)
    except Timeout:
        return ("Hang",)


# ----------------------------------------------------------------- canonical forms of handshake / change user
SERVER_CAPS = None


def server_caps():
    from mysql_mimic.constants import DEFAULT_SERVER_CAPABILITIES
    return DEFAULT_SERVER_CAPABILITIES


def _enc(s, cs):
    return None if s is None else s.encode(cs.codec)


def impl_handshake(data: bytes):
    try:
        r = packets.parse_handshake_response(capabilities=server_caps(), data=data)
    except Exception as e:  # noqa
        return ("Err", pk.err_class(e))
    cs = r.client_charset
    if isinstance(r, packets.SSLRequest):
        return ("Ok", ("SSLReq", int(r.capabilities), r.max_packet_size, int(cs)))
    try:
        return ("Ok", ("HSR", int(r.capabilities), r.max_packet_size, int(cs), _enc(r.username, cs), bytes(r.auth_response),
                       _enc(r.database, cs), _enc(r.client_plugin, cs),
                       [(_enc(k, cs), _enc(v, cs)) for k, v in r.connect_attrs.items()], r.zstd_compression_level))
    except Exception as e:  # noqa  (re-encoding failed: outside the model)
        return ("Skip", repr(e))


def model_handshake(m):
    if m[0] == "Err":
        e = m[1]
        return ("Err", ("MysqlErr", e[1]) if isinstance(e, tuple) else e)
    v = m[1]
    if v[0] == "SSLReq":
        return ("Ok", ("SSLReq", v[1], v[2], int(Collation(v[3]).charset)))
    _, cw, mp, coll, user, auth, db, plugin, attrs, z = v
    opt = lambda x: None if x == "None" else bytes(x[1])
    return ("Ok", ("HSR", cw, mp, int(Collation(coll).charset), bytes(user), bytes(auth), opt(db), opt(plugin),
                   [(bytes(k), bytes(w)) for k, w in attrs], z))


def impl_change_user(capsword: int, data: bytes):
    try:
        r = packets.parse_com_change_user(capabilities=Capabilities(capsword), client_charset=CharacterSet.latin1, data=data)
    except Exception as e:  # noqa
        return ("Err", pk.err_class(e))
    cs = r.client_charset or CharacterSet.latin1
    try:
        return ("Ok", (r.username.encode("latin1"), bytes(r.auth_response), r.database.encode("latin1"),
                       None if r.client_charset is None else int(r.client_charset),
                       _enc(r.client_plugin, cs), [(_enc(k, cs), _enc(v, cs)) for k, v in r.connect_attrs.items()]))
    except Exception as e:  # noqa
        return ("Skip", repr(e))


def model_change_user(m):
    if m[0] == "Err":
        e = m[1]
        return ("Err", ("MysqlErr", e[1]) if isinstance(e, tuple) else e)
    d = m[1]
    opt = lambda x: None if x == "None" else x[1]
    coll = opt(d["cu_coll"])
    plugin = opt(d["cu_plugin"])
    return ("Ok", (bytes(d["cu_user"]), bytes(d["cu_auth"]), bytes(d["cu_db"]),
                   None if coll is None else int(Collation(coll).charset),
                   None if plugin is None else bytes(plugin), [(bytes(k), bytes(v)) for k, v in d["cu_attrs"]]))


def text_safe(res):
    """comparison of text fields is meaningful only when the packet's charset decodes as the identity"""
    return True


LATIN1 = int(CharacterSet.latin1)


def comparable(impl_r, model_r):
    if impl_r[0] == "Skip":
        return False
    if impl_r[0] == "Err" and impl_r[1] in ("DecodeErr", "LookupError"):
        return False  # decoding with a real codec is outside the model
    if model_r[0] == "Ok" and model_r[1][0] in ("HSR", "SSLReq") and model_r[1][3] != LATIN1:
        return False
    return True


# ----------------------------------------------------------------- hostile inputs
def mutations(rng, base: bytes, n):
    """truncation at every offset + field-level mutations + bit flips of one valid packet"""
    out = [base[:i] for i in range(len(base) + 1)]
    special = [0, 250, 251, 252, 253, 254, 255]
    for _ in range(n):
        b = bytearray(base)
        if not b:
            break
        k = rng.random()
        i = rng.randrange(len(b))
        if k < 0.35:
            b[i] = rng.choice(special)
        elif k < 0.5:
            b[i:i + 1] = b"\xfc\x00\x01" if rng.random() < 0.5 else b"\xfe" + b"\xff" * 8
        elif k < 0.65:
            b[i:i + 1] = b"\xfd\x00\x00\x01"
        elif k < 0.8:
            b[i] ^= 1 << rng.randrange(8)
        elif k < 0.9:
            j = b.find(b"\x00", i)
            if j >= 0:
                del b[j]  # remove a terminator
        else:
            del b[i:i + rng.randint(1, 4)]
        out.append(bytes(b))
    return out


def valid_packets(rng):
    """(kind, extra, payload) for the packet kinds with a parser of their own"""
    res = []
    for _ in range(6):
        attrs = [pk.gen_param(rng, named=True, hostile=False) for _ in range(rng.choice([0, 1, 3]))]
        res.append(("query", None, pk.encode_com_query(attrs, b"SELECT 1")))
    for _ in range(6):
        qa = rng.random() < 0.5
        m = rng.choice([0, 1, 2, 3])
        pos = [pk.gen_param(rng, named=False, hostile=False) for _ in range(m)]
        attrs = [pk.gen_param(rng, named=True, hostile=False) for _ in range(rng.choice([0, 2]))] if qa else []
        flags = 8 if qa else 0
        res.append(("execute", (qa, m), pk.encode_execute(qa, 5, flags, pos, attrs)))
    variants = [cl.BASE_CAPS, cl.BASE_CAPS | cl.CLIENT_CONNECT_WITH_DB, cl.BASE_CAPS | cl.CLIENT_PLUGIN_AUTH_LENENC,
                cl.BASE_CAPS | cl.CLIENT_CONNECT_ATTRS | cl.CLIENT_CONNECT_WITH_DB,
                cl.BASE_CAPS | cl.CLIENT_CONNECT_ATTRS | cl.CLIENT_PLUGIN_AUTH_LENENC | cl.CLIENT_QUERY_ATTRIBUTES | cl.CLIENT_DEPRECATE_EOF,
                cl.CLIENT_PROTOCOL_41 | cl.CLIENT_SECURE_CONNECTION]
    for caps in variants:
        res.append(("handshake", None, cl.handshake_response(user=b"user", auth=b"\x01\x02\x03", caps=caps, db=b"db", charset=8,
                                                             attrs=[(b"k", b"v"), (b"_os", b"linux")])))
    # announced lengths / counts that are absurd against the bytes present (the loops must end with the data, not the counter)
    body = cl.lenstr(b"k") + cl.lenstr(b"v") + cl.lenstr(b"_os") + cl.lenstr(b"linux")
    for caps in (cl.BASE_CAPS | cl.CLIENT_CONNECT_ATTRS | cl.CLIENT_CONNECT_WITH_DB, cl.BASE_CAPS | cl.CLIENT_CONNECT_ATTRS | cl.CLIENT_PLUGIN_AUTH_LENENC):
        base = cl.handshake_response(user=b"user", auth=b"\x01\x02\x03", caps=caps, db=b"db", charset=8, attrs=[(b"k", b"v"), (b"_os", b"linux")])
        head = base[:len(base) - len(cl.lenenc(len(body)) + body)]
        for absurd in (b"\xfe" + b"\xff" * 8, b"\xfd\xff\xff\xff", b"\xfc\xff\xff", b"\xfe" + (2 ** 40).to_bytes(8, "little")):
            res.append(("handshake", None, head + absurd + body))
            res.append(("handshake", None, head + absurd + body[:3]))
            res.append(("handshake", None, head + absurd))
    res.append(("handshake", None, cl.ssl_request(charset=8)))
    for w in [cl.BASE_CAPS, cl.BASE_CAPS | cl.CLIENT_CONNECT_ATTRS, cl.CLIENT_PROTOCOL_41 | cl.CLIENT_PLUGIN_AUTH]:
        p = b"user\0" + (b"\x03abc" if w & cl.CLIENT_SECURE_CONNECTION else b"abc\0") + b"db\0" + struct.pack("<H", 8)
        if w & cl.CLIENT_PLUGIN_AUTH:
            p += b"mysql_native_password\0"
        if w & cl.CLIENT_CONNECT_ATTRS:
            body = cl.lenstr(b"k") + cl.lenstr(b"v")
            p += cl.lenenc(len(body)) + body
        res.append(("change_user", w, p))
        if w & cl.CLIENT_CONNECT_ATTRS:
            cut = len(cl.lenenc(len(body)) + body)
            for absurd in (b"\xfe" + b"\xff" * 8, b"\xfd\xff\xff\xff", b"\xfe" + (2 ** 40).to_bytes(8, "little")):
                res.append(("change_user", w, p[:len(p) - cut] + absurd + body))
                res.append(("change_user", w, p[:len(p) - cut] + absurd))
    return res


def term_for(kind, extra, data):
    if kind == "query":
        return f"parse_com_query true {core.coq_N_list(data)}"
    if kind == "execute":
        qa, m = extra
        tpl = b"SELECT " + b",".join([b"?"] * m)
        lk = pk.coq_stmt_lookup({5: (tpl, m, None)})
        return (f"(execute_sql {core.coq_bool(qa)} {lk} [] {core.coq_N_list(data)}, "
                f"execute_has_float {core.coq_bool(qa)} {lk} {core.coq_N_list(data)})")
    if kind == "handshake":
        return f"hs {core.coq_N_list(data)}"
    return f"cu {extra} {core.coq_N_list(data)}"


def impl_for(kind, extra, data):
    if kind == "query":
        return pk.impl_parse_com_query(data, True)
    if kind == "execute":
        qa, m = extra
        tpl = "SELECT " + ",".join(["?"] * m)
        return pk.impl_execute(data, qa, {5: (tpl, m, None)})
    if kind == "handshake":
        return impl_handshake(data)
    return impl_change_user(extra, data)


def model_for(kind, m):
    if kind == "query":
        return pk.canon_model_result(m, pk.model_com_query_conv)
    if kind == "execute":
        r = pk.canon_model_result(m[0], pk.model_execute_conv)
        return r + (("has_float",) if m[1] else ())
    if kind == "handshake":
        return model_handshake(m)
    return model_change_user(m)


def same(kind, a, b):
    if kind in ("query", "execute"):
        if a[0] == "Ok" and b[0] == "Ok" and kind == "execute" and b[-1] == "has_float":
            # repr(float) is not supplied for mutated packets: compare everything but the SQL text
            return pk.same_pairs(a[1][1], b[1][1]) and a[1][2] == b[1][2]
        return pk.same_result(a, b[:2])
    return a == b


# ----------------------------------------------------------------- work measurements
def line_events(fn):
    """number of Python line events executed by fn() (sys.monitoring, CPython 3.12)"""
    mon = sys.monitoring
    tool = mon.PROFILER_ID
    cnt = [0]

    def cb(code, line):
        cnt[0] += 1

    mon.use_tool_id(tool, "verif")
    mon.register_callback(tool, mon.events.LINE, cb)
    mon.set_events(tool, mon.events.LINE)
    try:
        t0 = time.perf_counter()
        r = fn()
        dt = time.perf_counter() - t0
    finally:
        mon.set_events(tool, 0)
        mon.register_callback(tool, mon.events.LINE, None)
        mon.free_tool_id(tool)
    return cnt[0], dt, r


def scaling_probe(name, make, sizes):
    """returns (name, [(n, line events, seconds)], verdict).  Work must grow (about) linearly with n."""
    rows = []
    for n in sizes:
        data = make(n)
        try:
            with deadline(20):
                ev, dt, _ = line_events(lambda: data())
        except Timeout:
            rows.append((n, None, 20.0))
            return name, rows, f"no answer within 20 s for a field of {n} bytes / items"
        rows.append((n, ev, dt))
    (n0, e0, t0), (n1, e1, t1) = rows[0], rows[-1]
    k = n1 / n0
    if e1 > 1.6 * k * max(e0, 50) + 2000:
        return name, rows, f"line events grow super-linearly: {e0} -> {e1} for x{k:.0f} input"
    if t1 > 0.5 and t1 > 2.5 * k * max(t0, 0.004):
        return name, rows, f"time grows super-linearly: {t0:.4f}s -> {t1:.4f}s for x{k:.0f} input"
    return name, rows, None


def probes(quick):
    sizes = [16384, 262144] if quick else [16384, 262144, 1048576]
    P = []
    P.append(("handshake user name with terminator", lambda n: (lambda: impl_handshake(cl.handshake_response(user=b"a" * n, caps=cl.BASE_CAPS, charset=8)))))
    P.append(("handshake user name without terminator", lambda n: (lambda: impl_handshake(struct.pack("<IIB", cl.BASE_CAPS, 1 << 24, 8) + bytes(23) + b"a" * n))))
    P.append(("COM_FIELD_LIST table name without terminator", lambda n: (lambda: packets.parse_com_field_list(CharacterSet.latin1, b"t" * n))))
    P.append(("COM_CHANGE_USER without terminators", lambda n: (lambda: impl_change_user(cl.BASE_CAPS, b"u" * n))))

    def prep(n):
        from mysql_mimic import prepared
        sql = "SELECT " + ",".join(["?"] * (n // 2))
        fn = getattr(prepared, "find_params", None)
        return (lambda: fn(sql)) if fn else (lambda: prepared.REGEX_PARAM.findall(sql))

    P.append(("COM_STMT_PREPARE with n/2 placeholders", prep))

    def execn(n):
        m = n // 8
        pos = [pk.P(b"", 1, False, 1)] * m
        data = pk.encode_execute(False, 5, 0, pos, [])
        tpl = "SELECT " + ",".join(["?"] * m)
        return lambda: pk.impl_execute(data, False, {5: (tpl, m, None)})

    P.append(("COM_STMT_EXECUTE with n/8 parameters", execn))
    P.append(("connect attributes, n/4 entries", lambda n: (lambda: impl_handshake(cl.handshake_response(
        user=b"u", caps=cl.BASE_CAPS | cl.CLIENT_CONNECT_ATTRS, charset=8, attrs=[(b"k", b"v")] * (n // 4))))))
    P.append(("query attribute count 2^64-1", lambda n: (lambda: pk.impl_parse_com_query(b"\xfe" + b"\xff" * 8 + b"\x01" + b"\x00" * n, True))))
    out = [(name, mk, sizes) for name, mk in P]

    # statement text is client bytes too: a LIKE pattern of n wildcards in a 40-byte COM_QUERY (answered by the library itself)
    def like_probe(piece):
        def mk(n):
            import asyncio
            from mysql_mimic.session import Session
            sql = "SHOW VARIABLES LIKE '" + piece * (n // len(piece)) + "!'"

            def go():
                loop = asyncio.new_event_loop()
                try:
                    return loop.run_until_complete(Session().handle_query(sql, {}))
                finally:
                    loop.close()
            return go
        return mk
    lsizes = [8, 28] if quick else [8, 28, 120]
    out.append(("SHOW VARIABLES LIKE with n consecutive % wildcards", like_probe("%"), lsizes))
    out.append(("SHOW VARIABLES LIKE with n/2 '%_' pairs", like_probe("%_"), lsizes))
    out.append(("SHOW VARIABLES LIKE with n/2 '%a' pairs", like_probe("%a"), lsizes))
    return out


# ----------------------------------------------------------------- server level
def server_level(ctx, rng, hostile_cmds, hostile_handshakes):
    """every hostile packet at command phase, after every kind of preceding command (PING, no-response commands, query, prepare): exactly one ERR and in step (or a normal response), or close with
    the registration released; a witness connection and a fresh connection keep being served."""
    problems = []
    n = 0
    env = impl.Env(own_sleep=False)
    try:
        opened, closed = [], []

        class S(impl.Session):
            async def init(self, connection):
                await super().init(connection)
                opened.append(1)

            async def close(self):
                closed.append(1)
                await super().close()

            async def query(self, e, sql, attrs):
                return [(1,)], ["a"]

        ctl = impl.LoggingControl(env)
        srv = impl.make_server(env, S, control=ctl)

        def connect(cid, caps=cl.BASE_CAPS):
            c = impl.Conn(env, srv, cid=cid)
            env.settle()
            c.take()
            c.feed(cl.frame(cl.handshake_response(user=b"u", caps=caps, charset=8), 1))
            ok = cl.reassemble(c.take())
            assert ok and ok[0][1][0] == 0, ok
            return c

        def ping_ok(c):
            c.feed(cl.frame(bytes([cl.COM_PING]), 0))
            r = cl.split_raw(c.take())
            return len(r) == 1 and r[0][0] == 1 and r[0][1][:1] == b"\x00"

        witness = connect(0)
        target = connect(1)
        PRIORS = [None, bytes([cl.COM_STMT_CLOSE]) + struct.pack("<I", 77), bytes([cl.COM_QUERY]) + b"SELECT a FROM t",
                  bytes([cl.COM_STMT_SEND_LONG_DATA]) + struct.pack("<IH", 77, 0) + b"abc", None, bytes([cl.COM_STMT_PREPARE]) + b"SELECT ?",
                  bytes([cl.COM_STMT_SEND_LONG_DATA]) + struct.pack("<IH", 1, 0) + b"abc", bytes([cl.COM_STMT_CLOSE]) + struct.pack("<I", 1)]
        tid = 1
        # every hostile payload with the right sequence id; well-formed and hostile payloads with a wrong one
        wrong_seq = [bytes([cl.COM_PING]), bytes([cl.COM_QUERY]) + b"SELECT 1", b"", bytes([cl.COM_QUERY]) + b"x" * 300,
                     bytes([cl.COM_STMT_EXECUTE]) + b"\x01\x00\x00\x00\x00\x01\x00\x00\x00"] + list(hostile_cmds[:: max(1, len(hostile_cmds) // 12)])
        # the empty packet and a bare unknown command byte after every kind of preceding command (consecutive rounds walk PRIORS)
        framed = [(p, 0) for p in (b"", b"\x7f") for _ in PRIORS]
        framed += [(p, 0) for p in hostile_cmds] + [(p, q) for p in wrong_seq for q in (1, 7, 255)]
        for payload, seqid in framed:
            n += 1
            if target.blocked_on() == "done":
                tid += 1
                target = connect(tid)
            # what the connection did just before varies: a PING (the in-step probe of the previous round), a command that has no
            # response at all (COM_STMT_CLOSE / COM_STMT_SEND_LONG_DATA, known and unknown statement), a query, a prepare
            prior = PRIORS[n % len(PRIORS)]
            if prior is not None:
                target.feed(cl.frame(prior, 0))
                target.take()
                if target.blocked_on() != "read":
                    problems.append(dict(kind="stuck", phase="well-formed command before the hostile one", command=list(prior[:16]), state=target.blocked_on()))
                    target.eof()
                    continue
            res = guarded(lambda: target.feed(cl.frame(payload, seqid)))
            if res == ("Hang",):
                problems.append(dict(kind="hang", phase="command", payload=list(payload[:64]), length=len(payload), seq=seqid))
                return problems, n
            try:
                raw = cl.split_raw(target.take())
            except ValueError as e:
                problems.append(dict(kind="garbled-output", payload=list(payload[:64]), seq=seqid, error=str(e)))
                continue
            state = target.blocked_on()
            if state == "done":
                # (the witness connection is the only one that stays: every other initialised session has been closed by now)
                if len(closed) != len(opened) - 1:
                    problems.append(dict(kind="session-not-closed", payload=list(payload[:64]), seq=seqid, sessions_opened=len(opened), sessions_closed=len(closed),
                                         note="a connection ended by a hostile packet leaves its application session open: what the session holds is never released"))
                    closed.append(1)      # report once per connection
                if not target.writer.closed or any(k for k in ctl._connections if ctl._connections[k] is not None and getattr(ctl._connections[k], "stream", None) and ctl._connections[k].stream.writer is target.writer):
                    problems.append(dict(kind="not-released", payload=list(payload[:64]), seq=seqid))
            elif state != "read":
                problems.append(dict(kind="stuck", state=state, payload=list(payload[:64]), seq=seqid))
                target.eof()
                continue
            else:
                if not raw and payload[:1] not in (bytes([cl.COM_STMT_SEND_LONG_DATA]), bytes([cl.COM_STMT_CLOSE])):
                    problems.append(dict(kind="unanswered", payload=list(payload[:64]), seq=seqid, command_before=list((prior or bytes([cl.COM_PING]))[:16])))
                if raw and raw[0][1][:1] == b"\xff" and len(raw) != 1:
                    problems.append(dict(kind="more-than-one-packet-with-ERR", payload=list(payload[:64]), seq=seqid, n=len(raw)))
                if raw and [q for q, _ in raw] != [(1 + i) % 256 for i in range(len(raw))]:
                    problems.append(dict(kind="sequence", payload=list(payload[:64]), seq=seqid, seqs=[q for q, _ in raw][:5]))
                if payload[:1] == bytes([cl.COM_CHANGE_USER]) and raw and raw[-1][1][:1] in (b"\xfe", b"\x01"):
                    # the server legitimately started an auth-switch / more-data exchange and now waits for the client's reply:
                    # not a command boundary.  Answer it with a hostile reply - a wrong sequence id with a short payload
                    # left unread, or garbage - and apply the same rule: one ERR and in step, or closed and released.
                    nreply = getattr(server_level, "_nreply", 0)
                    server_level._nreply = nreply + 1
                    hostile = [(7, b"abcd"), (0, b"pw\0"), (9, b"x"), (raw[-1][0] + 1, b""), (raw[-1][0] + 1, b"\xff" * 40)][nreply % 5]
                    res = guarded(lambda: target.feed(cl.frame(hostile[1], hostile[0] % 256)))
                    if res == ("Hang",):
                        problems.append(dict(kind="hang", phase="change-user exchange", reply=list(hostile[1]), seq=hostile[0]))
                        return problems, n
                    try:
                        raw2 = cl.split_raw(target.take())
                    except ValueError as e:
                        problems.append(dict(kind="garbled-output", phase="change-user exchange", error=str(e)))
                        raw2 = []
                    if target.blocked_on() == "read":
                        if len([p for _, p in raw2 if p[:1] == b"\xff"]) > 1:
                            problems.append(dict(kind="several-ERR", phase="change-user exchange", reply=list(hostile[1]), seq=hostile[0]))
                        if raw2 and raw2[-1][1][:1] in (b"\xfe", b"\x01"):
                            target.eof()      # yet another round trip requested: legitimate, stop here
                        elif not ping_ok(target):
                            problems.append(dict(kind="out-of-step", phase="change-user exchange", change_user=list(payload[:48]),
                                                 reply=list(hostile[1]), seq=hostile[0]))
                            target.eof()
                    elif target.blocked_on() != "done":
                        problems.append(dict(kind="stuck", phase="change-user exchange", state=target.blocked_on()))
                        target.eof()
                    continue
                if not ping_ok(target):
                    problems.append(dict(kind="out-of-step", payload=list(payload[:64]), seq=seqid))
                    target.eof()
            if not ping_ok(witness):
                problems.append(dict(kind="witness-not-served", payload=list(payload[:64]), seq=seqid))
                break
        # hostile handshake responses: one ERR then close (or accepted), registration released
        for hp in hostile_handshakes:
            n += 1
            tid += 1
            c = impl.Conn(env, srv, cid=tid)
            env.settle()
            c.take()
            res = guarded(lambda: c.feed(cl.frame(hp, 1)))
            if res == ("Hang",):
                problems.append(dict(kind="hang", phase="handshake", payload=list(hp[:64]), length=len(hp)))
                return problems, n
            raw = cl.split_raw(c.take())
            st = c.blocked_on()
            if st == "read":
                if raw and raw[-1][1][:1] == b"\xff":
                    pass  # refused but still reading: C01's business
                c.eof()
            elif st == "done":
                errs = [p for _, p in raw if p[:1] == b"\xff"]
                if len(errs) > 1:
                    problems.append(dict(kind="several-ERR", phase="handshake", payload=list(hp[:64])))
                if not c.writer.closed:
                    problems.append(dict(kind="not-closed", phase="handshake", payload=list(hp[:64])))
            else:
                problems.append(dict(kind="stuck", phase="handshake", state=st, payload=list(hp[:64])))
            if not ping_ok(witness):
                problems.append(dict(kind="witness-not-served", payload=list(hp[:64])))
                break
        witness.eof()
        target.eof()
        fresh = connect(9999)
        if not ping_ok(fresh):
            problems.append(dict(kind="fresh-connection-not-served"))
        fresh.eof()
        env.settle()
        left = [k for k in ctl._connections]
        if left:
            problems.append(dict(kind="registry-not-empty", ids=left[:5]))
    finally:
        env.close()
    return problems, n


def run(ctx: core.Ctx):
    rng = ctx.rng
    pr = core.check_proofs(ctx, "Props/C07", headers=[HEADER])
    disagreements, samples = [], []
    distinct = set()
    witness = None

    # ---- parser level: model vs implementation on hostile inputs -------------------------------------
    vp = valid_packets(rng)
    cases = []
    for kind, extra, base in vp:
        for d in mutations(rng, base, 25 if ctx.quick else 400):
            cases.append((kind, extra, d))
    for _ in range(200 if ctx.quick else 5000):
        kind, extra, _ = rng.choice(vp)
        cases.append((kind, extra, bytes(rng.randrange(256) for _ in range(rng.randint(0, 40)))))
    # implementation first, under a watchdog: a hang here is the violation itself
    impl_res = []
    hangs = 0
    for kind, extra, d in cases:
        if hangs >= 2:
            impl_res.append(("Hang",))  # decisive already: do not spend 4 s on each further case
            continue
        r = guarded(impl_for, kind, extra, d, seconds=4)
        if r == ("Hang",):
            hangs += 1
            witness = witness or dict(kind="parser-hang", parser=kind, data=list(d), note="no result within 4 s")
            impl_res.append(("Hang",))
        else:
            impl_res.append(r)
    terms = [term_for(k, e, d) for k, e, d in cases]
    model = core.run_coq_terms(ctx, "c07p", HEADER, terms, shard=250)
    classes = {}
    compared = 0
    for (kind, extra, d), ir, m in zip(cases, impl_res, model):
        mm = model_for(kind, m)
        distinct.add((kind, extra, d))
        cls = mm[0] if mm[0] == "Ok" else str(mm[1])
        if kind == "execute":
            pass
        classes[cls] = classes.get(cls, 0) + 1
        if ir == ("Hang",) or not comparable(ir, mm):
            continue
        compared += 1
        if not same(kind, ir, mm):
            disagreements.append(dict(kind=kind, extra=repr(extra), data=list(d), impl=repr(ir)[:400], model=repr(mm)[:400]))
    samples.append(dict(kind=cases[5][0], data=list(cases[5][2]), model=repr(model[5])[:200]))

    # ---- bounded work: scaling law on every variable-length field ----------------------------------------
    scal = []
    for name, mk, sizes in (probes(ctx.quick) if not hangs else []):
        nm, rows, verdict = scaling_probe(name, mk, sizes)
        scal.append(dict(field=nm, rows=[(n, e, round(t, 4)) for n, e, t in rows], verdict=verdict or "linear"))
        ctx.evals += len(rows)
        if verdict and witness is None:
            witness = dict(kind="unbounded-work", field=nm, measurements=scal[-1]["rows"], problem=verdict)

    # ---- server level ---------------------------------------------------------------------------------------------
    if witness is None or witness.get("kind") != "parser-hang":
        hostile_cmds = []
        for kind, extra, base in vp:
            if kind == "query":
                hostile_cmds += [bytes([cl.COM_QUERY]) + d for d in mutations(rng, b"SELECT 1", 6)]
            elif kind == "execute":
                hostile_cmds += [bytes([cl.COM_STMT_EXECUTE]) + d for d in mutations(rng, base, 4)[:: 3]]
            elif kind == "change_user":
                hostile_cmds += [bytes([cl.COM_CHANGE_USER]) + d for d in mutations(rng, base, 3)[:: 5]]
        for cmd in [cl.COM_STMT_FETCH, cl.COM_STMT_RESET, cl.COM_STMT_CLOSE, cl.COM_STMT_SEND_LONG_DATA, cl.COM_FIELD_LIST, cl.COM_INIT_DB,
                    cl.COM_STMT_PREPARE, 0x00, 0x05, 0x1D, 0x7F, 0xFF]:
            for tail in [b"", b"\x00", b"\x01\x00", b"\xff" * 5, b"abc", b"t\0%"]:
                hostile_cmds.append(bytes([cmd]) + tail)
        hostile_cmds.append(b"")
        if ctx.quick:
            rng.shuffle(hostile_cmds)
            hostile_cmds = hostile_cmds[:400]
        hostile_hs = []
        for kind, extra, base in vp:
            if kind == "handshake":
                hostile_hs += mutations(rng, base, 8)[:: (4 if ctx.quick else 1)]
        problems, ns = server_level(ctx, rng, hostile_cmds, hostile_hs)
        ctx.evals += ns
        if problems and witness is None:
            witness = dict(kind="server", problems=problems[:5])
        samples.append(dict(kind="server-level", hostile_commands=len(hostile_cmds), hostile_handshakes=len(hostile_hs), problems=len(problems)))

    # real sockets: a client that RESETS the connection (idle, with a statement inside the application; plain and under TLS) - the
    # registration is released and the session closed, once
    rsw = core.realsock_witness(core.realsock(ctx, ["reset"]))
    if rsw and witness is None:
        witness = rsw
    if witness is not None:
        core.report_violation(ctx, "a hostile packet hangs the server, costs unbounded work, or leaves the connection out of step", witness)
    if (not pr["ok"] or disagreements) and not ctx.violations:
        core.report_violation(ctx, "proof obligation or model/implementation correspondence no longer checks",
                              dict(kind="unproved", broken=core.proof_failure_summary(ctx), disagreements=disagreements[:3]),
                              no_input=True)
    if not ctx.quick and pr["ok"]:
        core.coqchk(ctx, "Props/C07")
    core.write_evidence(
        ctx,
        rule="every truncation of, and field mutations (length/count bytes set to 0/250..255/2^16/2^24/2^64-1 prefixes, terminators "
             "removed, bit flips, deletions) of valid COM_QUERY(+attributes), COM_STMT_EXECUTE, handshake responses in 7 capability "
             "variants, SSL request, COM_CHANGE_USER packets, plus random payloads: result class and fields of the real parser vs the "
             "Coq model, implementation under an 8 s watchdog; at server level every hostile packet follows one of eight kinds of preceding "
             "command (PING, COM_STMT_CLOSE / COM_STMT_SEND_LONG_DATA for known and unknown statements, query, prepare) and a command left "
             "without any answer is reported; scaling probes (16 KiB -> 256 KiB/1 MiB) of every variable-length field "
             "counting Python line events and time; hostile packets at command phase and as handshake response on a live server with "
             "a witness connection. distinct = distinct (parser, packet)",
        samples=samples, distinct=len(distinct),
        extra=dict(model_result_classes=classes, compared=compared, scaling=scal, disagreements=len(disagreements)),
        assumptions=["decoding text with a real codec and parsing SQL with sqlglot are outside the model (cases where the packet selects "
                     "a character set other than latin1 are compared by result class only)",
                     "line-event counts and wall time stand for 'work'; thresholds allow 1.6x / 2.5x over linear"],
    )
