"""C06 - Prepared-statement parameters are bound as data, never as SQL."""
from __future__ import annotations

import struct

import core
import client as cl
import impl
import pk

QUOTES = b"'\"`"


def ref_positions(t: bytes):
    """the placeholder rule as a specification, written as a regular expression over tokens: the text is a sequence of
    '...' / "..." strings (a backslash escapes the next character), `...` identifiers and other characters; the
    placeholders are the question marks among the other characters.  (An unterminated string runs to the end.)"""
    import re
    tok = re.compile(rb"""'(?:\\.|[^'\\])*(?:'|\\?$)|"(?:\\.|[^"\\])*(?:"|\\?$)|`[^`]*(?:`|$)|.""", re.S)
    out, i = [], 0
    while i < len(t):
        m = tok.match(t, i)
        if m.group() == b"?":
            out.append(i)
        i = m.end()
    return out


def ref_count(t: bytes) -> int:
    return len(ref_positions(t))


def gen_template(rng):
    """grammar template: plain text, holes, quoted segments containing question marks - and quote characters of the other
    kinds, escaped quotes and backslashes, doubled quotes.  -> (text, number of holes, their positions)"""
    segs = []
    for _ in range(rng.randint(1, 6)):
        r = rng.random()
        if r < 0.4:
            segs.append(rng.choice([b"SELECT ", b" FROM t WHERE a = ", b", ", b" AND b <> ", b"\n", b" x%y_z ", b" \\ "]))
        elif r < 0.7:
            segs.append(b"?")
        else:
            q = bytes([rng.choice(QUOTES)])
            # (a literal may END in an escaped backslash - LIKE ? ESCAPE '\\' - which closes normally)
            body = rng.choice([b"?", b"a?b", b"", b"??", b"x", b" ? ", b"\\\\", b"?\\\\", b"a\\\\b?"])
            if rng.random() < 0.35:
                others = [bytes([o]) for o in QUOTES if bytes([o]) != q]
                body = rng.choice([b"it" + others[0] + b"s ?", others[1] + b"?", b"?" + others[0] + others[1] + b"?", others[0] + b" ? " + others[0] + b"?",
                                   q + q + b"?", b"?" + q + q] + ([b"\\" + q + b"?", b"?\\" + q + b" ?", b"\\" + others[0] + b"?"] if q != b"`" else [b"?\\", b"\\"]))
            segs.append(q + body + q)
    # keep holes and quoted segments apart (adjacent literals would merge lexically in any SQL dialect)
    out = bytearray()
    positions = []
    prev_plain = True
    for sg in segs:
        plain = not (sg == b"?" or sg[:1] in (b"'", b'"', b"`"))
        if not plain and not prev_plain:
            out += b" "
        if not plain and out and chr(out[-1]).isalnum():
            out += b" "
        if plain and not prev_plain and sg[:1].isalnum():
            out += b" "
        if sg == b"?":
            positions.append(len(out))
        out += sg
        prev_plain = plain
    return bytes(out), len(positions), positions


def gen_raw_text(rng):
    alpha = b"??''\"`ab \\\n"
    return bytes(rng.choice(alpha) for _ in range(rng.randint(0, 14)))


def tokens(sql: str):
    from sqlglot.dialects import MySQL
    return [(t.token_type.name, t.text) for t in MySQL().tokenize(sql)]


def oracle(tpl: bytes, holes, params, got_sql: str, positions=None):
    """Direct statement of the property with an independent tokenizer: the received SQL must tokenise as the
    template with each hole replaced by ONE literal token denoting the value."""
    marks = [f"zzh{i}zz" for i in range(holes)]
    parts = tpl.decode("latin1")
    # replace holes left to right: the generator's own hole positions (the reference scan when it has none)
    hp = set(positions if positions is not None else ref_positions(tpl))
    flags = [i in hp for i in range(len(tpl))]
    out = []
    k = 0
    for ch, f in zip(parts, flags):
        if f:
            out.append(marks[k])
            k += 1
        else:
            out.append(ch)
    try:
        want = tokens("".join(out))
        have = tokens(got_sql)
    except Exception as e:  # tokenizer error on the received SQL = the value escaped its literal
        return f"received SQL does not tokenise: {type(e).__name__}"
    i = 0
    for ty, tx in want:
        if tx in marks:
            p = params[marks.index(tx)]
            v = p.value
            if i >= len(have):
                return "received SQL ends early"
            if v is None:
                if have[i][0] != "NULL":
                    return f"hole {tx}: expected NULL, got {have[i]}"
                i += 1
            elif isinstance(v, bytes):
                if have[i][0] != "STRING" or have[i][1] != v.decode("latin1"):
                    return f"hole {tx}: expected the string {v!r}, got {have[i]}"
                i += 1
            elif isinstance(v, int):
                neg = v < 0
                if neg:
                    if have[i][0] != "DASH":
                        return f"hole {tx}: expected -, got {have[i]}"
                    i += 1
                if i >= len(have) or have[i][0] != "NUMBER" or have[i][1].lstrip("0") != (str(abs(v)).lstrip("0")):
                    return f"hole {tx}: expected number {v}, got {have[i] if i < len(have) else None}"
                i += 1
            else:
                # float token(s): skip sign + number
                if have[i][0] == "DASH":
                    i += 1
                i += 1
        else:
            if i >= len(have) or have[i] != (ty, tx):
                return f"token {(ty, tx)} of the template became {have[i] if i < len(have) else None}"
            i += 1
    if i != len(have):
        return f"extra tokens in received SQL: {have[i:i + 3]}"
    return None


def refused_execution_probe():
    """long data belongs to ONE execution attempt: sent for an execution the parser refuses (an unsupported parameter type), it
    is not bound by the next execution in front of that execution's own long data (c06_long_data_since_last_use: a refused
    execution of a known statement uses its long data up)"""
    env = impl.Env(own_sleep=False)
    try:
        log = []

        class S(impl.ScriptSession):
            async def handle_query(self, sql, attrs):
                log.append(sql)
                return None

        srv = impl.make_server(env, lambda: S(env, 0))
        c = impl.Conn(env, srv)
        env.settle(); c.take()
        c.feed(cl.frame(cl.handshake_response(user=b"u", caps=cl.BASE_CAPS, charset=8), 1)); c.take()
        c.feed(cl.frame(bytes([cl.COM_STMT_PREPARE]) + b"INSERT INTO t VALUES (?, ?)", 0))
        sid = struct.unpack_from("<I", cl.reassemble(c.take())[0][1], 1)[0]

        def long_data(data):
            c.feed(cl.frame(bytes([cl.COM_STMT_SEND_LONG_DATA]) + struct.pack("<IH", sid, 0) + data, 0)); c.take()

        def execute(second):
            p0 = pk.P(b"", pk.T_VAR_STRING, False, b"ignored"); p0.long_data = True
            c.feed(cl.frame(bytes([cl.COM_STMT_EXECUTE]) + pk.encode_execute(False, sid, 0, [p0, second], []), 0))
            return cl.split_raw(c.take())
        long_data(b"AAAA")
        rep = execute(pk.P(b"", 12, False, b"2024-01-01"))            # MYSQL_TYPE_DATETIME: not supported, ERR 1235
        refused = bool(rep) and rep[0][1][:1] == b"\xff" and not log
        long_data(b"BBBB")
        execute(pk.P(b"", pk.T_VAR_STRING, False, b"x"))
        c.eof()
        want = "INSERT INTO t VALUES ('BBBB', 'x')"
        if refused and log != [want]:
            return dict(problem="long data sent for an execution that was refused is bound by the next execution",
                        sequence=["PREPARE 'INSERT INTO t VALUES (?, ?)'", "SEND_LONG_DATA p0 'AAAA'", "EXECUTE with p1 typed DATETIME -> ERR",
                                  "SEND_LONG_DATA p0 'BBBB'", "EXECUTE (long data, 'x')"], application_received=log, expected=[want])
        return None
    finally:
        env.close()


def run(ctx: core.Ctx):
    rng = ctx.rng
    pr = core.check_proofs(ctx, "Props/C06", headers=[pk.HEADER])
    disagreements, samples = [], []
    distinct = set()
    witness = None
    N1 = 500 if ctx.quick else 8000

    # ---- packet level: templates x parameter tuples ------------------------------------------------------
    cases = []
    for k in range(N1):
        if rng.random() < 0.7:
            tpl, holes, hpos = gen_template(rng)
            grammar = True
        else:
            tpl = gen_raw_text(rng)
            holes = ref_count(tpl)
            grammar, hpos = False, None
            # any text at all - unbalanced quotes, a dangling backslash: the library's placeholders are the question marks the
            # token-level reference finds (strings end at their own quote character, a backslash escapes inside '...' and "...")
            from mysql_mimic.prepared import find_params
            fp = find_params(tpl.decode("latin1"))
            if fp != ref_positions(tpl) and witness is None:
                witness = dict(kind="placeholder-positions", template=tpl.decode("latin1"), library=fp, reference=ref_positions(tpl))
        qa = rng.random() < 0.3
        pos = [pk.gen_param(rng, named=False, hostile=True) for _ in range(holes)]
        flags = rng.choice([0, 1]) | (8 if qa and (holes == 0 or rng.random() < 0.5) else 0)
        cases.append((qa, tpl, holes, pos, flags, (grammar, hpos)))
    terms = []
    for qa, tpl, holes, pos, flags, _ in cases:
        data = pk.encode_execute(qa, 3, flags, pos, [])
        terms.append(f"execute_sql {core.coq_bool(qa)} {pk.coq_stmt_lookup({3: (tpl, holes, None)})} {pk.float_tokens(pos)} {core.coq_N_list(data)}")
    model = core.run_coq_terms(ctx, "c06p", pk.HEADER, terms)
    n_hostile = 0
    for (qa, tpl, holes, pos, flags, (grammar, hpos)), m in zip(cases, model):
        data = pk.encode_execute(qa, 3, flags, pos, [])
        got = pk.impl_execute(data, qa, {3: (tpl.decode("latin1"), holes, None)})
        mm = pk.canon_model_result(m, pk.model_execute_conv)
        distinct.add((tpl, data))
        if any(isinstance(p.value, bytes) and any(c in p.value for c in b"'\\?") for p in pos):
            n_hostile += 1
        if not pk.same_result(got, mm):
            disagreements.append(dict(kind="execute", qa=qa, tpl=tpl.decode("latin1"), params=repr(pos), impl=repr(got), model=repr(mm)))
            if grammar and witness is None:
                why = oracle(tpl, holes, pos, got[1][0].decode("latin1"), hpos) if got[0] == "Ok" else f"execution fails with {got[1]}"
                if why:
                    witness = dict(kind="execute", template=tpl.decode("latin1"), params=repr(pos), received=repr(got), problem=why)
    samples.append(dict(kind="execute", template=cases[1][1].decode("latin1"), params=repr(cases[1][3]), model=repr(model[1])[:300]))

    # an always-run oracle pass over grammar templates (independent tokenizer)
    for qa, tpl, holes, pos, flags, (grammar, hpos) in cases[: (150 if ctx.quick else 2000)]:
        if not grammar or witness is not None:
            continue
        got = pk.impl_execute(pk.encode_execute(qa, 3, flags, pos, []), qa, {3: (tpl.decode("latin1"), holes, None)})
        why = oracle(tpl, holes, pos, got[1][0].decode("latin1"), hpos) if got[0] == "Ok" else f"execution fails with {got[1]}"
        if why:
            witness = dict(kind="execute-oracle", template=tpl.decode("latin1"), params=repr(pos), received=repr(got), problem=why)

    # ---- through the wire: prepare count, long data in any chunking, repeated executions -------------------
    env = impl.Env(own_sleep=False)
    nwire = 0
    try:
        log = []

        fail_next = [False]

        class S(impl.ScriptSession):
            async def handle_query(self, sql, attrs):
                log.append(sql)
                if fail_next[0]:
                    fail_next[0] = False
                    from mysql_mimic.errors import MysqlError
                    raise MysqlError("application refuses", 1064)
                return None

        srv = impl.make_server(env, lambda: S(env, 0))
        c = impl.Conn(env, srv)
        env.settle()
        c.take()
        c.feed(cl.frame(cl.handshake_response(user=b"u", caps=cl.BASE_CAPS, charset=8), 1))
        c.take()
        wcases = []
        for _ in range(60 if ctx.quick else 800):
            tpl, holes, hpos = gen_template(rng) if rng.random() < 0.8 else (gen_raw_text(rng), None, None)
            c.feed(cl.frame(bytes([cl.COM_STMT_PREPARE]) + tpl, 0))
            pkts = cl.reassemble(c.take())
            first = pkts[0][1]
            if first[0] != 0:
                witness = witness or dict(kind="prepare", template=tpl.decode("latin1"), problem="prepare answered with ERR")
                continue
            stmt_id, ncols, nparams = struct.unpack_from("<IHH", first, 1)
            want = ref_count(tpl)
            if holes is not None and nparams != holes:
                witness = witness or dict(kind="prepare-count", template=tpl.decode("latin1"), announced=nparams, holes=holes)
            execs = []
            for rep in range(3):
                pos = [pk.gen_param(rng, named=False, hostile=True) for _ in range(nparams)]
                bufs = {}
                # first execution: long data, and the application may fail it; second: fresh long data (the
                # client's retry); third: inline values only
                fail_next[0] = (rep == 0 and rng.random() < 0.5)
                if rep in (0, 1):
                    for i, p in enumerate(pos):
                        if rng.random() < 0.35:
                            whole = bytes(rng.choice(b"ab'\\?;") for _ in range(rng.randint(0, 6)))
                            cuts = sorted(rng.randrange(0, len(whole) + 1) for _ in range(rng.randint(0, 3)))
                            parts = [whole[a:b] for a, b in zip([0] + cuts, cuts + [len(whole)])]
                            for part in parts:
                                c.feed(cl.frame(bytes([cl.COM_STMT_SEND_LONG_DATA]) + struct.pack("<IH", stmt_id, i) + part, 0))
                            bufs[i] = whole
                            p.long_data = True
                            if c.take():
                                witness = witness or dict(kind="long-data", problem="COM_STMT_SEND_LONG_DATA was answered")
                n0 = len(log)
                c.feed(cl.frame(bytes([cl.COM_STMT_EXECUTE]) + pk.encode_execute(False, stmt_id, 0, pos, []), 0))
                c.take()
                nwire += 1
                got = log[-1] if len(log) == n0 + 1 else None
                execs.append((pos, bufs, got))
                # the property itself, with the independent tokenizer: every hole holds exactly the supplied value
                if holes is not None and got is not None and witness is None:
                    eff = [pk.P(b"", pk.T_VAR_STRING, False, bufs[i]) if (i in bufs and not p.is_null()) else p for i, p in enumerate(pos)]
                    why = oracle(tpl, nparams, eff, got, hpos)
                    if why:
                        witness = dict(kind="wire-execute", template=tpl.decode("latin1"), params=repr(pos), long_data=repr(bufs),
                                       received=got, execution=rep + 1, problem=why)
            wcases.append((tpl, nparams, want, execs))
        terms, refs = [], []
        for tpl, nparams, want, execs in wcases:
            terms.append(f"Ok (dec_N (count_params {core.coq_N_list(tpl)}), [], false)")
            refs.append(("count", tpl, nparams))
            for pos, bufs, got in execs:
                data = pk.encode_execute(False, 1, 0, pos, [])
                terms.append(f"execute_sql false {pk.coq_stmt_lookup({1: (tpl, nparams, bufs)})} {pk.float_tokens(pos)} {core.coq_N_list(data)}")
                refs.append(("exec", tpl, pos, bufs, got))
        model = core.run_coq_terms(ctx, "c06w", pk.HEADER, terms)
        for ref, m in zip(refs, model):
            if ref[0] == "count":
                mc = int(bytes(m[1][0]).decode())
                if mc != ref[2]:
                    disagreements.append(dict(kind="prepare-count", template=ref[1].decode("latin1"), impl=ref[2], model=mc))
            else:
                _, tpl, pos, bufs, got = ref
                mm = pk.canon_model_result(m, pk.model_execute_conv)
                g = ("Ok", (got.encode("latin1"), [], False)) if got is not None else ("Err", "no-session-call")
                if mm[0] == "Ok" and not pk.same_result(g, mm):
                    disagreements.append(dict(kind="wire-execute", template=tpl.decode("latin1"), params=repr(pos), long_data=repr(bufs), impl=repr(g), model=repr(mm)))
        samples.append(dict(kind="wire", template=wcases[0][0].decode("latin1"), announced=wcases[0][1], executions=repr(wcases[0][3])[:300]))
    finally:
        env.close()
    ctx.evals += nwire

    # ---- clients in multi-byte character sets whose trail bytes include 0x5C / 0x27 (sjis, cp932, gbk, big5): a string value
    #      - inline, or as long data in one chunk / cut inside a character / byte by byte - is escaped as TEXT, after decoding:
    #      the byte 0x5C inside a character is not a backslash
    from mysql_mimic.charset import Collation
    mb = [("sjis", "shift_jis", "\u8868\u5341 it's"), ("cp932", "cp932", "\u80fd\u8868'"), ("gbk", "gbk", "\u7e17x\\y"), ("big5", "big5", "\u529f\u8a31''"),
          ("utf8mb4", "utf8", "\u8868\\'"), ("latin1", "latin1", "\xe9\\'")]
    for csname, codec, text in (mb if witness is None else []):
        coll = next((int(c) for c in Collation if c.name.startswith(csname + "_")), None)
        if coll is None or coll > 255:
            continue
        raw = text.encode(codec)
        tail = " , 'tail' -- ?"
        for mode in ("inline", "one-chunk", "cut-in-character", "byte-by-byte"):
            env2 = impl.Env(own_sleep=False)
            try:
                got_sql = []

                class S2(impl.ScriptSession):
                    async def handle_query(self, sql, attrs):
                        got_sql.append(sql)
                        return None
                srv2 = impl.make_server(env2, lambda: S2(env2, 0))
                c2 = impl.Conn(env2, srv2)
                env2.settle(); c2.take()
                c2.feed(cl.frame(cl.handshake_response(user=b"u", charset=coll), 1)); c2.take()
                c2.feed(cl.frame(bytes([cl.COM_STMT_PREPARE]) + b"SELECT ?, '?', ?", 0))
                sid = struct.unpack_from("<I", cl.reassemble(c2.take())[0][1], 1)[0]
                p0 = pk.P(b"", pk.T_VAR_STRING, False, raw)
                if mode != "inline":
                    parts = {"one-chunk": [raw], "cut-in-character": [raw[:1], raw[1:]], "byte-by-byte": [raw[i:i + 1] for i in range(len(raw))]}[mode]
                    for part in parts:
                        c2.feed(cl.frame(bytes([cl.COM_STMT_SEND_LONG_DATA]) + struct.pack("<IH", sid, 0) + part, 0))
                    p0.long_data = True
                p1 = pk.P(b"", pk.T_VAR_STRING, False, tail.encode(codec))
                c2.feed(cl.frame(bytes([cl.COM_STMT_EXECUTE]) + pk.encode_execute(False, sid, 0, [p0, p1], []), 0)); c2.take()
                nwire += 1
                lit = lambda t: "'" + t.replace("\\", "\\\\").replace("'", "''") + "'"   # noqa: E731
                want = f"SELECT {lit(text)}, '?', {lit(tail)}"
                distinct.add((b"mb", csname.encode(), mode.encode()))
                if got_sql != [want] and witness is None:
                    witness = dict(kind="multibyte-client-charset", client_character_set=csname, delivery=mode, value=text, value_bytes=raw.hex(),
                                   expected=want, received=got_sql[:1])
            finally:
                env2.close()
    ctx.evals += 0

    # ---- whole histories of prepared-statement commands on one connection against Model/Stmts.v (the statement table with
    #      its long-data buffers): what an earlier command leaves behind is what a later one finds
    rp = refused_execution_probe()
    ctx.evals += 2
    if rp and witness is None:
        witness = dict(kind="refused-execution-long-data", **rp)
    import stmts_corr
    nhist, nops, hbad, hkinds = stmts_corr.run(ctx, "c06s", 40 if ctx.quick else 800)
    ctx.evals += nops
    disagreements += hbad
    # an execution whose SQL differs from what Model/Stmts.v binds (the values sent inline and the long data sent since the statement
    # was last prepared / executed / reset - c06_long_data_since_last_use, c06_execute_binds_long_data) is a failing input by itself
    for hb in hbad:
        if witness is None and ("RExec" in hb.get("impl", "") or "RExec" in hb.get("model", "")):
            witness = dict(kind="statement-history", problem="an execution did not bind exactly the values sent for it (inline, and long data since the statement's last use)",
                           operations=hb["operations"][-8:], application_received=hb["impl"], expected=hb["model"], query_attributes=hb["query_attributes"])

    if witness is not None:
        core.report_violation(ctx, "a parameter value is not bound as exactly one literal / placeholders miscounted", witness)
    if (not pr["ok"] or disagreements) and not ctx.violations:
        # look for a concrete failing input in the neighbourhood of the disagreements with the tokenizer oracle
        found = None
        for d in disagreements[:20]:
            if d["kind"] in ("execute", "wire-execute"):
                found = d
                break
        core.report_violation(ctx, "proof obligation or model/implementation correspondence no longer checks",
                              dict(kind="unproved", broken=core.proof_failure_summary(ctx), disagreements=disagreements[:3]),
                              no_input=True)
    if not ctx.quick and pr["ok"]:
        core.coqchk(ctx, "Props/C06")
    core.write_evidence(
        ctx,
        rule="templates from the grammar (plain text incl. backslash/%/_/newline, holes, '..?..' \"..?..\" `..?..` segments) and raw "
             "texts over a quote-rich alphabet x parameter tuples (hostile strings with quotes, backslashes, ?, NUL, newline, regex "
             "replacement syntax, high bytes, >250 bytes; ints of every width/sign at the boundaries; floats; NULLs) through the real "
             "parse_com_stmt_execute vs Exec.execute_sql; independent sqlglot-tokenizer oracle on the received SQL; through the wire: "
             "announced parameter count vs count_params, long data in random chunkings, repeated executions; whole histories of "
             "PREPARE / SEND_LONG_DATA (known and unknown statements, empty chunks, truncated) / EXECUTE (inline, long data, NULL, "
             "attributes, cursor flag, truncated; accepted or refused by the application) / RESET / CLOSE over several statements on "
             "one connection, operation by operation against Model/Stmts.v (srun). distinct = (template, packet)",
        samples=samples, distinct=len(distinct),
        extra=dict(cases_with_hostile_strings=n_hostile, wire_executions=nwire, disagreements=len(disagreements),
                   statement_histories=nhist, history_operations=nops, history_outcomes=hkinds),
        assumptions=["latin1 as client character set in the byte-exact runs (decoding = identity)",
                     "repr(float) supplied to the model by the harness; sqlglot's MySQL tokenizer is the downstream consumer used as oracle"],
    )
