"""C16 - Catalog answers mirror the application's declared schema exactly."""
from __future__ import annotations

import asyncio
import itertools

import core
import client as cl
import impl

from mysql_mimic import schema as msch
from mysql_mimic.constants import INFO_SCHEMA


def T(s: str):
    return core.coq_N_list(s.encode("utf8"))


def builtin_term():
    cols = []
    for db, tables in INFO_SCHEMA.items():
        for tab, cs in tables.items():
            for name, ty in cs.items():
                cols.append(f"mk_col DEF {T(db)} {T(tab)} {T(name)} {T(ty)}")
    return core.coq_list(cols)


def header():
    return ("From Coq Require Import List NArith.\nFrom MM Require Import Lib.Bytes Model.Like Model.Catalog.\n"
            "Import ListNotations. Open Scope N_scope.\n"
            f"Definition builtin : list column := {builtin_term()}.\n"
            "Definition allc (m : cats_t) := columns_of m ++ builtin.\n")


def gen_mapping(rng, depth):
    names = ["a", "b", "ab", "t1", "x_y", "a_", "z"]
    def cols():
        k = rng.randint(1, 4)
        return {n: rng.choice(["INT", "TEXT", "DOUBLE"]) for n in rng.sample(["id", "a", "b", "name", "x_y", "ab"], k)}
    def tables():
        return {t: cols() for t in rng.sample(names, rng.randint(1, 3))}
    if depth == 2:
        return tables()
    if depth == 3:
        return {d: tables() for d in rng.sample(["db", "db2", "a", "shop"], rng.randint(1, 3))}
    return {c: {d: tables() for d in rng.sample(["db", "db2", "a"], rng.randint(1, 2))} for c in rng.sample(["def", "cat2"], rng.randint(1, 2))}


def coq_mapping(m, depth):
    def tabs(t):
        return core.coq_list([f"({T(tn)}, {core.coq_list([f'({T(c)}, {T(ty)})' for c, ty in cs.items()])})" for tn, cs in t.items()])
    if depth == 2:
        return f"(of_depth2 {tabs(m)})"
    def dbs(d):
        return core.coq_list([f"({T(dn)}, {tabs(t)})" for dn, t in d.items()])
    if depth == 3:
        return f"(of_depth3 {dbs(m)})"
    return core.coq_list([f"({T(cn)}, {dbs(d)})" for cn, d in m.items()])


class CatSession(impl.Session):
    MAPPING = None

    async def schema(self):
        return self.MAPPING

    async def query(self, e, sql, attrs):
        return [], ["x"]


def ask(loop, sess, sql):
    try:
        r = loop.run_until_complete(sess.handle_query(sql, {}))
        rows, cols = r
        return ("Ok", [tuple(x) for x in rows])
    except Exception as e:  # noqa
        return ("Err", type(e).__name__)


def empty_entries_probe():
    """declarations that hold a database without tables or a table without columns, in first and in last position, at each
    depth.  -> (witness: what the declaration DOES hold is listed wrongly | None,
                witness: a declared empty database / table is not listed | None, statements asked)"""
    import asyncio
    orders = {"id": "INT", "total": "DOUBLE"}
    decls = [
        ("an empty database first, depth 3", {"empty_db": {}, "shop": {"orders": dict(orders)}}, ["empty_db", "shop"], {"shop": ["orders"]}),
        ("an empty database last, depth 3", {"shop": {"orders": dict(orders)}, "empty_db": {}}, ["empty_db", "shop"], {"shop": ["orders"]}),
        ("a table without columns first, depth 3", {"shop": {"no_columns_yet": {}, "orders": dict(orders)}}, ["shop"], {"shop": ["no_columns_yet", "orders"]}),
        ("a table without columns last, depth 3", {"shop": {"orders": dict(orders), "no_columns_yet": {}}}, ["shop"], {"shop": ["no_columns_yet", "orders"]}),
        ("an empty catalog first, depth 4", {"cat0": {}, "def": {"shop": {"orders": dict(orders)}}}, ["shop"], {"shop": ["orders"]}),
        ("an empty database first, depth 4", {"def": {"empty_db": {}, "shop": {"orders": dict(orders)}}}, ["empty_db", "shop"], {"shop": ["orders"]}),
    ]
    builtin = {"information_schema", "mysql"}
    loop = asyncio.new_event_loop()
    wrong, unlisted, n = None, None, 0
    try:
        for what, m, dbs, tabs in decls:
            CatSession.MAPPING = m
            sess = CatSession()
            sess.database = "shop"
            got = ask(loop, sess, "SHOW DATABASES"); n += 1
            listed = sorted(r[0] for r in got[1] if r[0] not in builtin) if got[0] == "Ok" else got
            cols = ask(loop, sess, "SHOW COLUMNS FROM orders FROM shop"); n += 1
            tl = ask(loop, sess, "SHOW TABLES FROM shop"); n += 1
            tlisted = sorted(r[0] for r in tl[1]) if tl[0] == "Ok" else tl
            colnames = [r[0] for r in cols[1]] if cols[0] == "Ok" else cols
            # what the declaration holds must be there, and nothing that was not declared
            if (not isinstance(listed, list) or "shop" not in listed or any(x not in dbs for x in listed) or not isinstance(tlisted, list)
                    or "orders" not in tlisted or any(x not in tabs["shop"] for x in tlisted) or colnames != ["id", "total"]):
                wrong = wrong or dict(problem=f"{what}: the declared database, table and columns are not what the catalog lists", mapping=repr(m),
                                      show_databases=repr(listed), show_tables_from_shop=repr(tlisted), show_columns_from_orders=repr(colnames))
            elif listed != dbs or tlisted != tabs["shop"]:
                unlisted = unlisted or dict(problem=f"{what}: a declared database without tables / table without columns is not listed", mapping=repr(m),
                                            show_databases=repr(listed), declared_databases=repr(dbs), show_tables_from_shop=repr(tlisted),
                                            declared_tables=repr(tabs["shop"]))
    finally:
        loop.close()
    return wrong, unlisted, n


def living_schema():
    import asyncio
    M = {"shop": {"items": {"id": "INT", "name": "TEXT"}, "orders": {"id": "INT"}}, "lab": {"runs": {"n": "INT"}}}

    class Engine(impl.Session):
        async def schema(self):
            return M          # the same object on every call

        async def query(self, e, sql, attrs):
            return [], ["x"]

    loop = asyncio.new_event_loop()
    n = 0
    try:
        sess = Engine()
        sess.database = "shop"
        builtin_dbs = {"information_schema", "mysql"}

        def verify(after):
            nonlocal n
            checks = [("SHOW TABLES", sorted(M.get("shop", {}))), ("SHOW TABLES FROM lab", sorted(M.get("lab", {}))),
                      ("SHOW DATABASES", sorted(set(M) | builtin_dbs | {""})),
                      ("SELECT table_name FROM information_schema.tables WHERE table_schema = 'shop'", sorted(M.get("shop", {})))]
            for t in sorted(M.get("shop", {})):
                checks.append((f"SHOW COLUMNS FROM {t}", list(M["shop"][t])))
                checks.append((f"DESCRIBE {t}", list(M["shop"][t])))
            for sql, want in checks:
                got = ask(loop, sess, sql)
                n += 1
                names = [r[0] for r in got[1]] if got[0] == "Ok" else got
                cmp = names if sql.startswith(("SHOW COLUMNS", "DESCRIBE")) else (sorted(set(names) - ({""} if "" not in want else set())) if isinstance(names, list) else names)
                if cmp != want and not (sql == "SHOW DATABASES" and isinstance(names, list) and sorted(set(names) | {""}) == want):
                    return dict(after=after, sql=sql, declared_now=want, answered=names)
            return None

        steps = [("the first catalog queries", lambda: None),
                 ("CREATE TABLE customers (in place)", lambda: M["shop"].__setitem__("customers", {"name": "TEXT"})),
                 ("ALTER TABLE orders ADD COLUMN total", lambda: M["shop"]["orders"].__setitem__("total", "DOUBLE")),
                 ("DROP TABLE items", lambda: M["shop"].pop("items")),
                 ("CREATE DATABASE hr", lambda: M.__setitem__("hr", {"staff": {"id": "INT"}})),
                 ("ALTER TABLE orders DROP COLUMN id", lambda: M["shop"]["orders"].pop("id"))]
        for label, change in steps:
            change()
            w = verify(label)
            if w:
                return w, n
        return None, n
    finally:
        loop.close()


def run(ctx: core.Ctx):
    rng = ctx.rng
    HEADER = header()
    pr = core.check_proofs(ctx, "Props/C16", headers=["From MM Require Import Lib.Bytes Model.Like Model.Catalog.\n"])
    disagreements, witness = [], None
    distinct = set()

    # ---- LIKE: exhaustive over a small alphabet, plus names with regex metacharacters ----------------------------
    alpha_p = "ab%_"
    alpha_s = "abc"
    L = 3 if ctx.quick else 4
    pats = ["".join(p) for n in range(0, L + 1) for p in itertools.product(alpha_p, repeat=n)]
    strs = ["".join(s) for n in range(0, L + 1) for s in itertools.product(alpha_s, repeat=n)]
    extra = [("a.c", "abc"), ("a.c", "a.c"), ("version", "version_comment"), ("version", "version"), ("a*", "aaa"), ("a*", "a*"), ("[ab]", "a"),
             ("a\\b", "a\\b"), ("a+b", "a+b"), ("(x", "(x"), ("%.%", "a.b"), ("%.%", "ab"), ("a$", "a$"), ("^a", "^a"), ("a", "a\n"), ("%", "x\ny")]
    pairs = [(p, s) for p in pats for s in strs] + extra
    terms = [f"like {T(p)} {T(s)}" for p, s in pairs]
    model = core.run_coq_terms(ctx, "c16l", HEADER, terms, shard=2500)
    for (p, s), m in zip(pairs, model):
        try:
            got = msch.like_to_regex(p).match(s) is not None
        except Exception as e:  # noqa
            got = ("error", type(e).__name__)
        distinct.add(("like", p, s))
        if got != m:
            disagreements.append(dict(kind="like", pattern=p, string=s, impl=got, model=m))
            if witness is None:
                witness = dict(kind="LIKE", pattern=p, string=s, library_says=got, sql_like_says=m)

    # ---- SHOW VARIABLES LIKE through the session ------------------------------------------------------------------
    loop = asyncio.new_event_loop()
    try:
        sess = CatSession()
        CatSession.MAPPING = {"t": {"a": "INT"}}
        allv = [k for k, in [(r[0],) for r in ask(loop, sess, "SHOW VARIABLES")[1]]]
        vpats = ["", "version", "version%", "%version%", "sql_mode", "character_set_%", "%_timeout", "a%", "license", "_icense", "time.zone", "time_zone"]
        vm = core.run_coq_terms(ctx, "c16v", HEADER, [core.coq_list([f"like {T(p)} {T(v)}" for v in allv]) for p in vpats], shard=20)
        for p, m in zip(vpats, vm):
            got = ask(loop, sess, f"SHOW VARIABLES LIKE '{p}'")
            want = [v for v, ok in zip(allv, m) if ok]
            names = sorted(r[0] for r in got[1]) if got[0] == "Ok" else got
            if names != sorted(want):
                witness = witness or dict(kind="SHOW VARIABLES LIKE", pattern=p, returned=names, expected=sorted(want))

        # ---- catalog: random mappings of each depth, all statement kinds ------------------------------------------
        cases = []
        for _ in range(5 if ctx.quick else 120):
            depth = rng.choice([2, 3, 4])
            m = gen_mapping(rng, depth)
            cases.append((depth, m))
        qterms, refs = [], []
        for depth, m in cases:
            cm = coq_mapping(m, depth)
            if depth == 2:
                dbs = [""]; tables = list(m)
            elif depth == 3:
                dbs = list(m); tables = sorted({t for d in m.values() for t in d})
            else:
                dbs = sorted({d for c in m.values() for d in c}); tables = sorted({t for c in m.values() for d in c.values() for t in d})
            for cur in ([None] + dbs[:2]):
                qs = [("databases", None, None)] + [("databases", None, p) for p in ("d%", "%b", "_b", "")]
                for db in dbs[:2]:
                    if db:
                        qs += [("tables", db, None), ("tables", db, "a%"), ("tables", db, "%1"), ("tables", db, "")]
                if cur:
                    qs.append(("tables", None, None))
                if depth == 2:
                    # the tables of a mapping without a database level live in the database '': named explicitly they are listed
                    qs += [("tables", "", None), ("tables", "", "a%"), ("tables", "", "")]
                for t in tables[:3]:
                    for db in ([None] + [d for d in dbs[:2] if d]):
                        if db is None and not cur and depth != 2:
                            continue      # neither FROM nor a current database: the property does not say
                        qs += [("columns", (t, db), None), ("columns", (t, db), "a%"), ("columns", (t, db), "%d"), ("columns", (t, db), "")]
                        if db is not None:
                            # the table named with its database - whatever the current database is
                            qs += [("describe-qualified", (t, db), None), ("desc-qualified", (t, db), None), ("columns-qualified", (t, db), None)]
                    if cur or depth == 2:
                        qs.append(("describe", t, None))
                for q in qs:
                    refs.append((depth, m, cur, q))
                    kind, arg, pat = q
                    po = "None" if pat is None else f"(Some {T(pat)})"
                    if kind == "databases":
                        qterms.append(f"show_databases (allc {cm}) {po}")
                    elif kind == "tables":
                        qterms.append(f"show_tables (allc {cm}) {T(arg if arg is not None else cur)} {po}")
                    elif kind in ("columns", "describe-qualified", "desc-qualified", "columns-qualified"):
                        t, db = arg
                        d = db if db is not None else cur
                        dd = "None" if d is None else f"(Some {T(d)})"
                        qterms.append(f"show_columns (allc {cm}) {T(t)} {dd} {po}")
                    else:
                        qterms.append(f"show_columns (allc {cm}) {T(arg)} {'None' if cur is None else '(Some ' + T(cur) + ')'} None")
        model = core.run_coq_terms(ctx, "c16c", HEADER, qterms, shard=60)
        dec = lambda x: bytes(x).decode("utf8")
        for (depth, m, cur, q), mres in zip(refs, model):
            CatSession.MAPPING = m
            sess = CatSession()
            sess.database = cur
            kind, arg, pat = q
            like = f" LIKE '{pat}'" if pat is not None else ""      # (LIKE '' is a filter: it selects the empty name only)
            if kind == "databases":
                sql = f"SHOW DATABASES{like}"
                want = sorted(dec(x) for x in mres)
            elif kind == "tables":
                sql = f"SHOW TABLES{(' FROM ' + (arg or '``')) if arg is not None else ''}{like}"
                want = sorted(dec(x) for x in mres)
            elif kind == "columns":
                t, db = arg
                sql = f"SHOW COLUMNS FROM `{t}`{' FROM ' + db if db else ''}{like}"
                want = [(dec(n), dec(ty)) for n, ty in mres]
            elif kind in ("describe-qualified", "desc-qualified", "columns-qualified"):
                t, db = arg
                sql = {"describe-qualified": "DESCRIBE", "desc-qualified": "DESC", "columns-qualified": "SHOW COLUMNS FROM"}[kind] + f" `{db}`.`{t}`"
                want = [(dec(n), dec(ty)) for n, ty in mres]
            else:
                sql = f"DESCRIBE `{arg}`"
                want = [(dec(n), dec(ty)) for n, ty in mres]
            got = ask(loop, sess, sql)
            distinct.add((repr(m), cur, sql))
            if got[0] != "Ok":
                if want:
                    witness = witness or dict(kind="catalog", mapping=repr(m), current_database=cur, sql=sql, got=got, expected=want)
                continue
            if kind in ("databases", "tables"):
                g = sorted(r[0] for r in got[1])
            else:
                g = [(r[0], r[1]) for r in got[1]]
            if g != want and witness is None:
                witness = dict(kind="catalog", mapping=repr(m), current_database=cur, sql=sql, returned=repr(g)[:400], expected=repr(want)[:400])
        # the same process serves several declarations one after the other - also declarations that are equal as unordered
        # mappings but list a table's columns in another order: every answer follows the declaration it was asked about
        def reorder(x, depth):
            if depth == 1:
                return dict(reversed(list(x.items())))
            return {k: reorder(v, depth - 1) for k, v in x.items()}

        def tables_of(x, depth, path=()):
            if depth == 2:
                for t, cs in x.items():
                    yield path + (t,), cs
            else:
                for k, v in x.items():
                    yield from tables_of(v, depth - 1, path + (k,))

        for depth, m in cases[:8]:
            for mm in (m, reorder(m, depth), m):
                CatSession.MAPPING = mm
                sess = CatSession()
                for path, cs in tables_of(mm, depth):
                    db = path[-2] if len(path) >= 2 else None
                    if depth == 4 and sum(1 for p2, _ in tables_of(mm, depth) if p2[-2:] == path[-2:]) > 1:
                        continue   # the same db.table in two catalogs: SHOW COLUMNS lists both
                    sql = f"SHOW COLUMNS FROM `{path[-1]}`" + (f" FROM `{db}`" if db else "")
                    got = ask(loop, sess, sql)
                    ctx.evals += 1
                    want = [(n, ty) for n, ty in cs.items()]
                    if (got[0] != "Ok" or [(r[0], r[1]) for r in got[1]] != want) and witness is None:
                        witness = dict(kind="declaration-order", mapping=repr(mm), sql=sql, declared=repr(want),
                                       returned=repr(got[1] if got[0] == "Ok" else got)[:300],
                                       note="asked after an equal mapping with another column order had been served")
        # INFORMATION_SCHEMA tables directly: each declared column exactly once
        for depth, m in cases[:6]:
            CatSession.MAPPING = m
            sess = CatSession()
            # (the key of a column includes its catalog: a depth-4 mapping may declare db.t.c in two catalogs)
            got = ask(loop, sess, "SELECT table_catalog, table_schema, table_name, column_name, ordinal_position FROM information_schema.columns")
            cols = msch.mapping_to_columns(m)
            declared = [(c.catalog, c.schema, c.table, c.name) for c in cols]
            listed = [(r[0], r[1], r[2], r[3]) for r in got[1] if r[1] not in INFO_SCHEMA] if got[0] == "Ok" else None
            if listed is None or sorted(listed) != sorted(declared) or len(set(listed)) != len(listed):
                witness = witness or dict(kind="information_schema.columns", mapping=repr(m), listed=repr(listed)[:300], declared=repr(declared)[:300])
    finally:
        loop.close()

    # ---- COM_FIELD_LIST through the wire: one decodable definition per column, in declaration order -----------------
    env = impl.Env(own_sleep=False)
    try:
        CatSession.MAPPING = {"db": {"t": {"id": "INT", "name": "TEXT", "x_y": "DOUBLE"}}}
        srv = impl.make_server(env, CatSession)
        c = impl.Conn(env, srv)
        env.settle(); c.take()
        c.feed(cl.frame(cl.handshake_response(user=b"u", caps=cl.BASE_CAPS | cl.CLIENT_CONNECT_WITH_DB, db=b"db"), 1)); c.take()
        for wildcard, want in ((b"", ["id", "name", "x_y"]), (b"%a%", ["name"]), (b"x_y", ["x_y"])):
            c.feed(cl.frame(bytes([cl.COM_FIELD_LIST]) + b"t\0" + wildcard, 0))
            pk = cl.reassemble(c.take())
            names = []
            ok = True
            for _, p, _ in pk[:-1]:
                try:
                    i = 0
                    fields = []
                    for _f in range(6):
                        l = p[i]; fields.append(p[i + 1:i + 1 + l]); i += 1 + l
                    assert p[i] == 0x0C
                    i += 13
                    assert i < len(p) and (p[i] in (0xFB, 0x00) or i + 1 + p[i] == len(p))
                    names.append(fields[4].decode())
                except Exception:  # noqa
                    ok = False
            if not ok or names != want or pk[-1][1][:1] != b"\xfe":
                witness = witness or dict(kind="COM_FIELD_LIST", wildcard=wildcard.decode(), names=names, expected=want, decodable=ok)
        ctx.evals += 3
    finally:
        env.close()

    # ---- an application that keeps ONE long-lived mapping, returns it from schema() every time and changes it in place (an
    #      in-memory engine applying DDL): every catalog answer mirrors the mapping as it is NOW, on the same connection
    mw = living_schema()
    ctx.evals += mw[1]
    if mw[0] and witness is None:
        witness = dict(kind="catalog-after-in-place-change", **mw[0])

    # ---- declarations with empty entries: what they hold is listed as declared (the depth of a mapping is not decided by its
    #      first entry); the empty entries themselves are the open finding
    ew, eu, ne = empty_entries_probe()
    ctx.evals += ne
    if ew and witness is None:
        witness = dict(kind="declaration-with-empty-entries", **ew)
    if eu:
        core.report_violation(ctx, "a declared database without tables / table without columns is not listed",
                              dict(kind="declared-empty-entry-not-listed", **eu), key="declared-empty-entry-not-listed")

    # the packet itself byte for byte against Model/Packets.v and through its reference decoder
    import packets_corr
    npk, pbad, _pk = packets_corr.run(ctx, "c16p", 40 if ctx.quick else 600, only=("coldef-fieldlist",))
    if pbad and witness is None:
        witness = dict(pbad[0], kind="packet-" + str(pbad[0].get("kind")))
    if witness is not None:
        core.report_violation(ctx, "a catalog answer does not mirror the declared schema / LIKE is not SQL LIKE", witness)
    if (not pr["ok"] or disagreements) and not ctx.violations:
        core.report_violation(ctx, "proof obligation or model/implementation correspondence no longer checks",
                              dict(kind="unproved", broken=core.proof_failure_summary(ctx), disagreements=disagreements[:3]),
                              no_input=True)
    if not ctx.quick and pr["ok"]:
        core.coqchk(ctx, "Props/C16")
    core.write_evidence(
        ctx,
        rule=f"LIKE: every pattern over {{a,b,%,_}} and every string over {{a,b,c}} up to length {L} plus names with regex "
             "metacharacters, like_to_regex(p).match(s) vs Like.like; SHOW VARIABLES LIKE through the session; random schema mappings "
             "of depth 2, 3 and 4 (shared table / column names across databases, names containing % and _) under every current-database "
             "setting: SHOW DATABASES / TABLES [FROM] / COLUMNS [FROM] [LIKE], DESCRIBE through the real Session and sqlglot's executor "
             "vs Catalog.show_*; INFORMATION_SCHEMA.COLUMNS lists each declared column exactly once; COM_FIELD_LIST through the wire. "
             "distinct = (mapping, current database, statement) and (pattern, string)",
        samples=[dict(pattern=pairs[50][0], string=pairs[50][1], model=model[0] if False else None)], distinct=len(distinct),
        extra=dict(like_pairs=len(pairs), catalog_queries=len(refs), disagreements=len(disagreements)),
        assumptions=["sqlglot's executor is modelled as an ideal filter / projection; Python's re as the textbook matcher on the translated subset",
                     "SHOW COLUMNS / DESCRIBE are only generated with a database determined (FROM or a current database)"],
    )
