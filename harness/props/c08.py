"""C08 - Connections do not interfere: each behaves as if it were alone."""
from __future__ import annotations

import struct

import core
import client as cl
import impl

HEADER = """From Coq Require Import List NArith.
From MM Require Import Lib.Bytes Model.Conn Model.Multi.
Import ListNotations. Open Scope N_scope.
"""


class StatefulSession(impl.Session):
    """real Session (variables, USE, SET, SHOW ...) whose application queries report the session's own state
    and complete only when the harness says so"""

    def __init__(self, env, cid, variables=None):
        super().__init__(variables)
        self.env = env
        self.cid = cid

    async def query(self, expression, sql, attrs):
        await self.env.fut(("app", self.cid))
        if "stream" in sql:
            # a result whose rows arrive over time: the connection's write buffer holds data while other connections run
            async def rows():
                for i in range(3):
                    if i:
                        await self.env.fut(("row", self.cid))
                    yield (self.database, i, sql)
            return rows(), ["db", "i", "sql"]
        return [(self.database, self.variables.get("sql_mode"), self.variables.get("character_set_client"),
                 self.username, sql, ",".join(f"{k}={v}" for k, v in sorted(attrs.items())))], ["db", "mode", "cs", "user", "sql", "attrs"]

    async def schema(self):
        # every database a connection may make its default has a table "t" (and one named after the database) whose columns are
        # named after the database: catalog statements that do not qualify the table are answered from the connection's own default
        m = {"db": {"t": {"a": "INT"}}}
        for k in range(8):
            for d in (f"db{k}", f"i{k}"):
                m[d] = {"t": {f"c_{d}": "INT", "a": "TEXT"}, f"only_{d}": {"x": "INT"}}
        return m


def gen_program(rng, k):
    """stateful program of one connection: list of payloads (and what kind), touching every per-connection state"""
    prog = []
    user = b"user%d" % k
    prog.append(("handshake", cl.handshake_response(user=user, caps=cl.BASE_CAPS | cl.CLIENT_CONNECT_WITH_DB, db=b"db%d" % k, charset=rng.choice([8, 45, 33]))))
    stmt = 0
    for _ in range(rng.randint(4, 12)):
        r = rng.random()
        if r < 0.15:
            prog.append(("cmd", bytes([cl.COM_QUERY]) + b"SET sql_mode = 'M%d_%d'" % (k, rng.randint(0, 9))))
        elif r < 0.25:
            prog.append(("cmd", bytes([cl.COM_QUERY]) + b"USE d%d_%d" % (k, rng.randint(0, 9))))
        elif r < 0.32:
            prog.append(("cmd", bytes([cl.COM_INIT_DB]) + b"i%d" % k))
        elif r < 0.4:
            prog.append(("cmd", bytes([cl.COM_QUERY]) + rng.choice([b"SET NAMES latin1", b"SET NAMES utf8mb4", b"SET autocommit = 0"])))
        elif r < 0.48:
            prog.append(("app", bytes([cl.COM_QUERY]) + b"SELECT x FROM t%d" % k))
        elif r < 0.55:
            prog.append(("app", bytes([cl.COM_QUERY]) + b"SELECT s FROM stream%d" % k))
        elif r < 0.6:
            # a statement under an optimizer hint stays in flight while others run; its variables are read back afterwards
            prog.append(("app", bytes([cl.COM_QUERY]) + b"SELECT /*+ SET_VAR(sql_mode = 'H%d') SET_VAR(max_execution_time = %d) */ x FROM h%d" % (k, 100 + k, k)))
            prog.append(("cmd", bytes([cl.COM_QUERY]) + b"SELECT @@sql_mode, @@max_execution_time"))
        elif r < 0.66:
            prog.append(("cmd", bytes([cl.COM_QUERY]) + rng.choice([b"SELECT @@sql_mode", b"SHOW VARIABLES LIKE 'sql_mode'", b"SELECT CONNECTION_ID() > 0", b"SELECT @@external_user",
                                                                       b"SHOW VARIABLES LIKE 'external_user'", b"SELECT @@external_user, @@sql_mode"])))
        elif r < 0.705:
            # catalog statements that depend on the connection's default database
            prog.append(("cmd", rng.choice([bytes([cl.COM_QUERY]) + b"SHOW TABLES", bytes([cl.COM_QUERY]) + b"SHOW COLUMNS FROM t", bytes([cl.COM_QUERY]) + b"DESCRIBE t",
                                            bytes([cl.COM_QUERY]) + b"SHOW FULL TABLES", bytes([cl.COM_FIELD_LIST]) + b"t\0", bytes([cl.COM_QUERY]) + b"SHOW INDEX FROM t",
                                            bytes([cl.COM_QUERY]) + b"SHOW TABLES LIKE 'only%'"])))
        elif r < 0.72:
            # text that ends inside a multi-byte character, through every decoding path (answered with ERR; whatever a decoder
            # keeps of it must not reach another connection)
            prog.append(("cmd", rng.choice([bytes([cl.COM_STMT_PREPARE]) + b"SELECT '\xe4\xb8", bytes([cl.COM_INIT_DB]) + b"d\xe4\xb8",
                                            bytes([cl.COM_FIELD_LIST]) + b"t\xf0\x9f\0", bytes([cl.COM_QUERY]) + b"SELECT '\xe4\xb8"])))
        elif r < 0.78:
            prog.append(("cmd", bytes([cl.COM_STMT_PREPARE]) + b"SELECT a FROM t WHERE k%d = ?" % k))
            stmt += 1
        elif r < 0.85 and stmt:
            sid = rng.randrange(stmt)
            prog.append(("cmd", bytes([cl.COM_STMT_SEND_LONG_DATA]) + struct.pack("<IH", sid, 0) + b"L%d" % k))
            prog.append(("app", bytes([cl.COM_STMT_EXECUTE]) + struct.pack("<IBI", sid, rng.choice([0, 1]), 1) + b"\x00\x01\xfd\x00" + b"\x01v"))
        elif r < 0.93 and stmt:
            prog.append(("cmd", bytes([cl.COM_STMT_FETCH]) + struct.pack("<II", rng.randrange(stmt), 1)))
        else:
            prog.append(("cmd", bytes([cl.COM_PING])))
    return prog


def run_interleaved(rng, programs, schedule_seed, shared_globals=False):
    """all programs on one loop; which connection advances next is drawn from the schedule PRNG.
    shared_globals: the deployment Session(SessionVariables(one GlobalVariables for the whole server)) - the sessions share the
    GLOBAL scope (which no program writes), everything a connection assigns or is assigned stays its own"""
    import random
    from mysql_mimic.variables import GlobalVariables, SessionVariables
    sched = random.Random(schedule_seed)
    env = impl.Env(own_sleep=False)
    try:
        sessions = []
        shared = GlobalVariables() if shared_globals else None

        def factory():
            s = StatefulSession(env, len(sessions), SessionVariables(shared) if shared is not None else None)
            sessions.append(s)
            return s

        srv = impl.make_server(env, factory, control=impl.LoggingControl(env, server_id=1))
        conns = []
        for k in range(len(programs)):
            c = impl.Conn(env, srv, cid=k)
            env.settle()
            conns.append(c)
        pos = [0] * len(programs)
        transcripts = [bytearray() for _ in programs]
        guard = 0
        while guard < 5000:
            guard += 1
            for k, c in enumerate(conns):
                transcripts[k] += c.take()
            ready = []
            for k, c in enumerate(conns):
                b = c.blocked_on()
                if b in ("app", "row"):
                    ready.append((k, b))
                elif b == "read" and pos[k] < len(programs[k]):
                    ready.append((k, "send"))
            if not ready:
                break
            k, what = sched.choice(ready)
            if what in ("app", "row"):
                env.resolve((what, k), None)
            else:
                kind, payload = programs[k][pos[k]]
                pos[k] += 1
                conns[k].feed(cl.frame(payload, 1 if kind == "handshake" else 0))
        for k, c in enumerate(conns):
            transcripts[k] += c.take()
        return [mask_ids(bytes(t)) for t in transcripts]
    finally:
        env.close()


def mask_ids(t: bytes):
    """the connection id in the handshake and the nonce differ between runs by construction: blank them"""
    try:
        pk = cl.split_raw(t)
    except ValueError:
        return t
    if not pk or pk[0][1][:1] != b"\x0a":
        return t
    p = bytearray(pk[0][1])
    i = p.index(0, 1) + 1
    p[i:i + 4] = b"\0\0\0\0"
    p[i + 4:i + 12] = b"N" * 8
    j = i + 4 + 8 + 1 + 2 + 1 + 2 + 2 + 1 + 10
    p[j:j + 12] = b"N" * 12
    out = bytes(p)
    rest = t[4 + len(pk[0][1]):]
    return struct.pack("<I", len(out))[:3] + b"\0" + out + rest


def run(ctx: core.Ctx):
    rng = ctx.rng
    pr = core.check_proofs(ctx, "Props/C08", headers=[HEADER])
    witness = None
    nsets = 25 if ctx.quick else 600
    nsched = 6 if ctx.quick else 20
    runs = 0
    for i in range(nsets):
        K = rng.choice([2, 3]) if ctx.quick else rng.choice([2, 3, 4])
        programs = [gen_program(rng, k) for k in range(K)]
        shared = (i % 2 == 1)      # every other program set runs on sessions that share one GlobalVariables instance
        alone = [run_interleaved(rng, [p], 0, shared)[0] for p in programs]
        for sd in range(nsched):
            runs += 1
            got = run_interleaved(rng, programs, rng.randrange(1 << 30), shared)
            for k in range(K):
                if got[k] != alone[k] and witness is None:
                    a, b = cl.split_raw(alone[k]), cl.split_raw(got[k])
                    idx = next((j for j, (x, y) in enumerate(zip(a, b)) if x != y), min(len(a), len(b)))
                    witness = dict(kind="interference", connections=K, connection=k, sessions_share_global_variables=shared, first_differing_packet=idx,
                                   alone=repr(a[idx:idx + 2])[:300], interleaved=repr(b[idx:idx + 2])[:300],
                                   program=[repr(p)[:80] for p in programs[k]])
    ctx.evals += runs
    if witness is not None:
        core.report_violation(ctx, "a connection's transcript depends on what other connections do", witness)
    if not pr["ok"] and not ctx.violations:
        core.report_violation(ctx, "proof obligation no longer checks (shared-state audit or product construction)",
                              dict(kind="unproved", broken=core.proof_failure_summary(ctx)), no_input=True)
    if not ctx.quick and pr["ok"]:
        core.coqchk(ctx, "Props/C08")
    core.write_evidence(
        ctx,
        rule="K = 2..4 connections on one event loop (every other program set on sessions built over ONE shared GlobalVariables instance), each with a random stateful program (SET / USE / COM_INIT_DB / SET NAMES / "
             "prepare / long data / execute with and without cursor / fetch / variable reads / catalog statements that depend on the default "
             "database (SHOW TABLES, SHOW COLUMNS, DESCRIBE, COM_FIELD_LIST, SHOW INDEX over a schema whose databases all have a table t) / queries that stay in flight until the "
             "harness completes them / results whose rows arrive one harness event at a time, so that buffered output is pending while others run) under schedules drawn from a PRNG at event granularity (which packet is delivered next, which "
             "in-flight query completes next); relation: each connection's byte transcript (connection id and nonce blanked) equals the "
             "transcript of the same program run alone. distinct = (program set, schedule)",
        samples=[dict(example_program=[repr(p)[:60] for p in gen_program(rng, 0)[:5]])], distinct=runs,
        extra=dict(program_sets=nsets, schedules_per_set=nsched),
        assumptions=["objects the application injects as PER-CONNECTION state but shares (one SessionVariables instance, one session object "
                     "returned for all connections) are outside the library and excluded; one GlobalVariables instance under all sessions is a "
                     "supported deployment and is covered (no program writes the GLOBAL scope)", "the per-connection machine itself is tied to the code by the lock-step runs of C03/C09/C10"],
    )
