"""C15 - Text crosses the wire in the negotiated character sets without corruption."""
from __future__ import annotations

import codecs
import struct

import core
import client as cl
import impl
import pk

from mysql_mimic import ResultColumn, ResultSet
from mysql_mimic.charset import CharacterSet, Collation
from mysql_mimic.errors import MysqlError
from mysql_mimic.types import ColumnType

HEADER = """From Coq Require Import List NArith ZArith Bool.
From MM Require Import Lib.Bytes Lib.Decimal Model.Vars Model.Charset Gen.FactsCharset Gen.FactsVars.
Import ListNotations. Open Scope N_scope.
Definition usable : list str := map (fun r => fst (fst (fst r))) (filter (fun r => snd r) charset_table).
Definition defcoll (cs : str) : option str := lookup cs default_collations.
Definition cs_of (id : N) : option str := charset_of_collation collation_table collation_charset id.
Definition views := run_views system_variables usable defcoll tx_characteristics cs_of.
"""

# MySQL character set -> Python codec, written down independently of CharacterSet.codec (MySQL's utf16 / utf32 are
# big endian without a byte order mark).  latin1: MySQL's latin1 is cp1252; the library and this table both use
# ISO-8859-1 - the 27 code points 0x80-0x9F that differ are not sampled (recorded as an observation in the evidence).
REF = {
    "big5": "big5", "cp850": "cp850", "latin1": "iso8859_1", "latin2": "iso8859_2", "ascii": "ascii", "ujis": "euc_jp",
    "sjis": "shift_jis", "hebrew": "iso8859_8", "tis620": "tis_620", "euckr": "euc_kr", "gb2312": "gb2312", "greek": "iso8859_7",
    "cp1250": "cp1250", "gbk": "gbk", "latin5": "iso8859_9", "utf8": "utf_8", "cp866": "cp866", "macroman": "mac_roman",
    "cp852": "cp852", "latin7": "iso8859_13", "cp1251": "cp1251", "utf16": "utf_16_be", "cp1256": "cp1256", "cp1257": "cp1257",
    "utf32": "utf_32_be", "cp932": "cp932", "gb18030": "gb18030", "utf8mb4": "utf_8",
}
# MySQL refuses these as client character sets (their encodings contain NUL bytes): they only occur in results
RESULTS_ONLY = {"utf16", "utf32", "ucs2", "utf16le"}

POOL = ("abcXYZ019 _" + "àéîõüÿßÆØçñ" + "ĄĆĘŁŃÓŚŹŻčěřšžőű" + "αβγδεζηθλπσω" + "абвгдежзийклмнопрстуфхцчшщыэюя" + "אבגדהוזחט" + "กขคงจฉชซ"
        + "الله" + "日本語中文字漢字" + "한국어" + "あいうえおカキクケコ" + "ąčęėįšųūž" + "ğışöç" + "€™" + "😀𝄞")


def S(s: str):
    return "[" + ";".join(str(ord(c)) for c in s) + "]"


def library_charsets():
    out = []
    for cs in CharacterSet:
        try:
            codecs.lookup(cs.codec)
            out.append(cs.name)
        except LookupError:
            pass
    return out


def repertoire(name):
    ref = REF[name]
    chars = []
    for c in POOL:
        try:
            if c.encode(ref).decode(ref) == c:
                chars.append(c)
        except UnicodeError:
            pass
    if name == "utf8":
        chars = [c for c in chars if ord(c) < 0x10000]
    if name == "latin1":
        chars = [c for c in chars if not (0x80 <= ord(c) <= 0x9F)]
    return chars


def sample(rng, name, n=None):
    rep = repertoire(name)
    n = n or rng.randint(1, 8)
    s = "".join(rng.choice(rep) for _ in range(n))
    return s.strip() or "a"


# ------------------------------------------------------------------------------------------ the application
class TextSession(impl.Session):
    """records what the application receives; returns what the harness tells it to"""
    LOG = None
    NEXT = None
    TABLE = None     # (table name, [column names]) declared by the application for COM_FIELD_LIST

    REBIND = False   # an application that installs its own variables object when the session starts (per-tenant settings)

    async def init(self, connection):
        await super().init(connection)
        if type(self).REBIND:
            from mysql_mimic.variables import GlobalVariables, SessionVariables
            fresh = SessionVariables(GlobalVariables())
            fresh.values.update(self.variables.values)       # what was negotiated so far is carried over
            self.variables = fresh

    async def query(self, expression, sql, attrs):
        self.LOG.append(("query", sql, dict(attrs), self.database))
        nxt = type(self).NEXT
        if nxt is None:
            return [], []
        kind = nxt[0]
        if kind == "error":
            raise MysqlError(nxt[1])
        if kind == "result":
            return nxt[1]
        return [], []

    async def use(self, database):
        self.LOG.append(("use", database))
        await super().use(database)

    async def schema(self):
        t = type(self).TABLE
        if t is None:
            return {}
        return {self.database or "db": {t[0]: {c: "INT" for c in t[1]}}}


class RefClient:
    """what a conforming client believes: it changes its character sets only when the server said OK"""

    def __init__(self, env, srv, rng, collation_id, user, db, attrs):
        self.env, self.rng = env, rng
        self.c = impl.Conn(env, srv, cid=0)
        env.settle()
        self.greeting = cl.parse_handshake_v10(cl.split_raw(self.c.take())[0][1])
        cs = REF_COLL[collation_id]
        self.client, self.results = cs, "utf8mb4"
        self.qattrs = rng.random() < 0.6
        self.caps = cl.BASE_CAPS | cl.CLIENT_CONNECT_WITH_DB | (cl.CLIENT_QUERY_ATTRIBUTES if self.qattrs else 0) | cl.CLIENT_CONNECT_ATTRS
        body = cl.handshake_response(user=user.encode(REF[cs]), caps=self.caps, db=db.encode(REF[cs]), charset=collation_id,
                                     attrs=[(k.encode(REF[cs]), v.encode(REF[cs])) for k, v in attrs])
        self.c.feed(cl.frame(body, 1))
        self.ok = self._reply_ok(cl.split_raw(self.c.take()))

    def _reply_ok(self, pkts):
        return bool(pkts) and pkts[-1][1][:1] != b"\xff"

    def enc(self, s):
        return s.encode(REF[self.client])

    def command(self, payload):
        self.c.feed(cl.frame(payload, 0))
        return cl.split_raw(self.c.take())

    def query(self, sql, attrs=()):
        if not self.qattrs:
            return self.command(bytes([cl.COM_QUERY]) + self.enc(sql))
        block = cl.lenenc(len(attrs)) + b"\x01"
        if attrs:
            ps = [pk.P(self.enc(k), pk.T_VAR_STRING, False, self.enc(v)) for k, v in attrs]
            block += pk.encode_params(ps, True)
        return self.command(bytes([cl.COM_QUERY]) + block + self.enc(sql))

    def decode_reply(self, pkts):
        """(kind, column names, rows as text, error message) decoded the way a client does"""
        if not pkts:
            return ("nothing",)
        first = pkts[0][1]
        if first[:1] == b"\xff":
            msg = first[9:] if first[3:4] == b"#" else first[3:]
            return ("err", msg.decode(REF[self.results], errors="replace"))
        if first[:1] == b"\x00":
            return ("ok",)
        ncols = first[0]
        names, charsets = [], []
        i = 1
        for _ in range(ncols):
            p = pkts[i][1]; i += 1
            pos = 0
            fields = []
            for _f in range(6):
                ln = p[pos]; pos += 1
                fields.append(p[pos:pos + ln]); pos += ln
            pos += 1
            (csid,) = struct.unpack_from("<H", p, pos)
            names.append(fields[4].decode(REF[self.results], errors="replace"))
            charsets.append(csid)
        if pkts[i][1][:1] == b"\xfe" and len(pkts[i][1]) < 9:
            i += 1
        rows = []
        while i < len(pkts) and not (pkts[i][1][:1] == b"\xfe" and len(pkts[i][1]) < 9):
            p = pkts[i][1]; i += 1
            pos = 0
            row = []
            for k in range(ncols):
                if p[pos] == 0xFB:
                    row.append(None); pos += 1
                    continue
                ln = p[pos]; pos += 1
                cell = p[pos:pos + ln]; pos += ln
                name = REF_CSID.get(charsets[k])
                row.append(cell.decode(REF[name], errors="replace") if name in REF else cell)
            rows.append(tuple(row))
        return ("rows", names, rows)


REF_COLL = {}     # collation id -> MySQL charset name (independent copy of the relation: by collation NAME prefix)
REF_CSID = {}     # id of a collation / charset as announced in column definitions -> charset name
for co in Collation:
    prefix = co.name.split("_")[0]
    REF_COLL[int(co)] = prefix
    REF_CSID[int(co)] = prefix
for cs in CharacterSet:
    REF_CSID.setdefault(int(cs), cs.name)


def gen_switch(rng, usable_client):
    """(sql, coq item list term, effect on the reference view if the server says OK)"""
    r = rng.random()
    cs = rng.choice(usable_client + ["nonsense", "ucs2"])
    if r < 0.3:
        return f"SET NAMES {cs}", f"[INames (Some {S(cs)}) None]", dict(client=cs, results=cs)
    if r < 0.4:
        return "SET NAMES DEFAULT", "[INames None None]", dict(client="utf8mb4", results="utf8mb4")
    if r < 0.55:
        return f"SET CHARACTER SET {cs}", f"[ICharset (Some {S(cs)})]", dict(client=cs, results=cs)
    if r < 0.7:
        return (f"SET character_set_client = '{cs}'", f"[IVar false ScSession {S('character_set_client')} (RVal (VStr {S(cs)}))]", dict(client=cs))
    if r < 0.8:
        return (f"SET @@session.character_set_results = '{cs}'", f"[IVar false ScSession {S('character_set_results')} (RVal (VStr {S(cs)}))]", dict(results=cs))
    if r < 0.9:
        # a statement the server must refuse as a whole: the first assignment is fine, the second is not
        bad = rng.choice(["nosuch = 1", "version = '9'", "wait_timeout = 'x'"])
        bt = {"nosuch = 1": f"IVar false ScSession {S('nosuch')} (RVal (VInt 1%Z))", "version = '9'": f"IVar false ScSession {S('version')} (RVal (VStr {S('9')}))",
              "wait_timeout = 'x'": f"IVar false ScSession {S('wait_timeout')} (RVal (VStr {S('x')}))"}[bad]
        return (f"SET character_set_client = '{cs}', {bad}", f"[IVar false ScSession {S('character_set_client')} (RVal (VStr {S(cs)})); {bt}]", dict(client=cs))
    return (f"SET character_set_database = 'garbage'", f"[IVar false ScSession {S('character_set_database')} (RVal (VStr {S('garbage')}))]", dict())


def wide_client_probe(ctx, rng):
    """utf16 / utf32 (ucs2, utf16le) cannot carry the protocol's NUL-terminated strings (user, database, COM_FIELD_LIST table):
    a server that lets a client DECLARE one of them cannot deliver those strings unchanged.  They are refused as client
    character sets - in the handshake, by SET NAMES / SET CHARACTER SET / SET character_set_client, by COM_CHANGE_USER -, the
    connection goes on in its previous character set, and they stay available for results"""
    for cs, coll in (("utf16", 54), ("utf32", 60)):
        if cs not in REF:
            continue
        env = impl.Env(own_sleep=False)
        try:
            log = []
            TextSession.LOG = log
            TextSession.REBIND = False
            srv = impl.make_server(env, TextSession)
            c = RefClient(env, srv, rng, 45, "u", "db", [])
            if not c.ok:
                return dict(problem="handshake refused")
            for sql in (f"SET NAMES {cs}", f"SET CHARACTER SET {cs}", f"SET character_set_client = '{cs}'", f"SET @@session.character_set_client = {cs}"):
                rep = c.decode_reply(c.query(sql))
                ctx.evals += 1
                if rep[0] != "err":
                    return dict(problem=f"a client was allowed to declare {cs}, in which the protocol's NUL-terminated strings cannot be sent", sql=sql, reply=repr(rep)[:100])
            text = "SELECT 'caf\u00e9' FROM t"
            del log[:]
            c.query(text)
            if not any(x[0] == "query" and x[1] == text for x in log):
                return dict(problem=f"after refusing {cs} the connection no longer decodes its statements", sent=text, log=repr(log)[:200])
            rep = c.decode_reply(c.query(f"SET character_set_results = '{cs}'"))
            if rep[0] != "ok":
                return dict(problem=f"{cs} refused as results character set", reply=repr(rep)[:100])
        finally:
            env.close()
        # declared in the handshake: refused, or served in a character set that can carry the strings - never "accepted" with
        # the user name and database lost
        env = impl.Env(own_sleep=False)
        try:
            log = []
            TextSession.LOG = log
            srv = impl.make_server(env, TextSession)
            conn = impl.Conn(env, srv, cid=0)
            env.settle(); conn.take()
            body = cl.handshake_response(user=b"root", caps=cl.BASE_CAPS | cl.CLIENT_CONNECT_WITH_DB, db=b"db", charset=coll)
            conn.feed(cl.frame(body, 1))
            pk_ = cl.split_raw(conn.take())
            ctx.evals += 1
            accepted = bool(pk_) and pk_[-1][1][:1] == b"\x00"
            if accepted:
                conn.feed(cl.frame(bytes([cl.COM_QUERY]) + b"SELECT c FROM t", 0)); conn.take()
                if not any(x[0] == "query" and x[3] == "db" for x in log):
                    return dict(problem=f"a handshake declaring {cs} (collation {coll}) was accepted and its database did not arrive", log=repr(log)[:200])
        finally:
            env.close()
    return None


def repeated_result(ctx, rng):
    """the same result (same column names, types and column character sets) before and after the results character set changes,
    and back: names and cells decode to what the application returned every time"""
    names = ["pr\u00e9nom0", "stra\u00dfe1"]
    cells = ("caf\u00e9", "na\u00efve")
    for order in (("utf8mb4", "latin1", "utf8mb4"), ("latin1", "utf8mb4", "cp1252" if "cp1252" in REF else "latin1"), ("utf8mb4", "macroman", "latin1")):
        if any(o not in REF for o in order):
            continue
        env = impl.Env(own_sleep=False)
        try:
            log = []
            TextSession.LOG = log
            TextSession.REBIND = False
            srv = impl.make_server(env, TextSession)
            c = RefClient(env, srv, rng, 45, "u", "db", [])
            if not c.ok:
                return dict(problem="handshake refused")
            for step, cs in enumerate(order):
                rep = c.decode_reply(c.query(f"SET character_set_results = '{cs}'"))
                if rep[0] != "ok":
                    return dict(problem="SET character_set_results refused", charset=cs, reply=repr(rep)[:120])
                c.results = cs
                TextSession.NEXT = ("result", ResultSet(rows=[cells], columns=[ResultColumn(nm, ColumnType.VARCHAR, character_set=CharacterSet["latin1"]) for nm in names]))
                rep = c.decode_reply(c.query("SELECT c FROM t"))
                ctx.evals += 1
                if rep[0] != "rows" or rep[1] != names or rep[2] != [cells]:
                    return dict(problem="the same result, sent again after the results character set changed, does not decode to what the application returned",
                                results_character_sets=list(order[:step + 1]), sent=names, got=repr(rep[1:3])[:200])
        finally:
            TextSession.NEXT = None
            env.close()
    return None


def history(ctx, rng, lib_sets):
    """one connection: handshake in a random collation, then commands and switches; returns (problem, log for the model)"""
    usable_client = [n for n in lib_sets if n in REF and n not in RESULTS_ONLY]
    coll_ids = [i for i, n in REF_COLL.items() if n in usable_client and i < 256]
    cid = rng.choice(coll_ids)
    cs0 = REF_COLL[cid]
    env = impl.Env(own_sleep=False)
    steps = [f"KHandshake {cid}"]
    try:
        log = []
        TextSession.LOG = log
        TextSession.NEXT = None
        TextSession.REBIND = (rng.random() < 0.3)
        made = []

        def factory():
            made.append(TextSession())
            return made[-1]

        srv = impl.make_server(env, factory)
        user, db = sample(rng, cs0), sample(rng, cs0)
        attrs = [(sample(rng, cs0, 3), sample(rng, cs0, 4))]
        c = RefClient(env, srv, rng, cid, user, db, attrs)
        if not c.ok:
            return dict(problem="handshake refused", collation=cid, charset=cs0), steps, []
        sess = made[0] if made else None
        conn = sess.connection if sess is not None else None
        if sess is not None:
            if sess.variables.get("external_user") != user:
                return dict(problem="user name of the handshake garbled", charset=cs0, sent=user, got=sess.variables.get("external_user")), steps, []
            if sess.database != db:
                return dict(problem="database of the handshake garbled", charset=cs0, sent=db, got=sess.database), steps, []
            if conn.client_connect_attrs != dict(attrs):
                return dict(problem="connect attributes garbled", charset=cs0, sent=attrs, got=conn.client_connect_attrs), steps, []
        views = [(c.client, c.results)]
        stmts = []
        pool_cols, pool_attrs = [], []
        for _ in range(rng.randint(4, 12)):
            r = rng.random()
            if r < 0.08:
                # a switch followed, in the SAME command, by a statement the server refuses: the switch was executed (the reply is
                # the second statement's ERR), and everything after it is text in the new character sets
                cs = rng.choice(usable_client)
                sql, term, eff = rng.choice([(f"SET NAMES {cs}", f"[INames (Some {S(cs)}) None]", dict(client=cs, results=cs)),
                                             (f"SET CHARACTER SET {cs}", f"[ICharset (Some {S(cs)})]", dict(client=cs, results=cs)),
                                             (f"SET character_set_client = '{cs}'", f"[IVar false ScSession {S('character_set_client')} (RVal (VStr {S(cs)}))]", dict(client=cs))])
                pk_ = c.query(sql + "; SET no_such_variable_at_all = 1")
                steps.append(f"KSet {term}")
                if not pk_ or pk_[-1][1][:1] != b"\xff":
                    return dict(problem="a command whose second statement must be refused was not answered with ERR", sql=sql), steps, views
                # (the ERR is the second statement's only if the first one was accepted: a switch that is itself refused - e.g.
                #  SET CHARACTER SET while @@character_set_database names no character set - changes nothing)
                if b"no_such_variable_at_all" in pk_[-1][1] and sess.variables.get("character_set_client") == eff.get("client", c.client):
                    c.client = eff.get("client", c.client)
                    c.results = eff.get("results", c.results)
            elif r < 0.3:
                sql, term, eff = gen_switch(rng, usable_client)
                pk_ = c.query(sql)
                rep = c.decode_reply(pk_)
                steps.append(f"KSet {term}")
                if rep[0] == "ok":
                    if eff.get("client", c.client) not in REF or eff.get("results", c.results) not in REF:
                        return dict(problem="the server accepted a character set it cannot use", sql=sql), steps, views
                    c.client = eff.get("client", c.client)
                    c.results = eff.get("results", c.results)
            elif r < 0.4:
                # COM_CHANGE_USER with a collation id (two bytes)
                new = rng.choice([i for i, n in REF_COLL.items() if n in usable_client])
                u2, d2 = sample(rng, c.client), sample(rng, c.client)
                payload = (bytes([cl.COM_CHANGE_USER]) + u2.encode(REF[c.client]) + b"\0" + b"\0" + d2.encode(REF[c.client]) + b"\0" +
                           struct.pack("<H", new) + b"mysql_native_password\0" + b"\x00")   # (an empty connect-attribute block: the capability is on)
                rep = c.decode_reply(c.command(payload))
                steps.append(f"KChangeUser (Some {new})")
                if rep[0] == "ok":
                    c.client = REF_COLL[new]
                    if sess.variables.get("external_user") != u2 or sess.database != d2:
                        return dict(problem="COM_CHANGE_USER strings garbled", charset=c.client, sent=(u2, d2),
                                    got=(sess.variables.get("external_user"), sess.database)), steps, views
                else:
                    return dict(problem="a well-formed COM_CHANGE_USER was refused (the provider accepts every user): its strings were not decoded "
                                        "with the character set in force", charset=c.client, new_collation=new, sent=(u2, d2), reply=repr(rep)[:160]), steps, views
            elif r < 0.5:
                d = sample(rng, c.client)
                rep = c.decode_reply(c.command(bytes([cl.COM_INIT_DB]) + c.enc(d)))
                steps.append("KText")
                if ("use", d) not in log[-1:]:
                    return dict(problem="COM_INIT_DB database garbled", charset=c.client, sent=d, got=log[-1:] and log[-1]), steps, views
            elif r < 0.62:
                # prepared statements live across switches: prepare now (text in the current character set) or execute one prepared
                # EARLIER - its parameters, long data and attributes are text of the command that carries them
                if not stmts or rng.random() < 0.4:
                    lit = sample(rng, c.client, 3)
                    rep = c.command(bytes([cl.COM_STMT_PREPARE]) + c.enc(f"SELECT c FROM t WHERE y = '{lit}' AND x = ?"))
                    steps.append("KText")
                    if rep[0][1][:1] == b"\xff":
                        return dict(problem="prepare refused", charset=c.client, text=lit), steps, views
                    stmts.append((rep[0][1][1:5], lit))
                else:
                    sid, lit = rng.choice(stmts)
                    text = sample(rng, c.client)
                    TextSession.NEXT = None
                    an, av = sample(rng, c.client, 3), sample(rng, c.client, 4)
                    if rng.random() < 0.3:
                        c.command(bytes([cl.COM_STMT_SEND_LONG_DATA]) + sid + b"\x00\x00" + c.enc(text))
                        p = pk.P(b"", pk.T_VAR_STRING, False, b"")
                        p.long_data = True      # nothing inline: the value was supplied by COM_STMT_SEND_LONG_DATA
                    else:
                        p = pk.P(b"", pk.T_VAR_STRING, False, c.enc(text))
                    a = pk.P(c.enc(an), pk.T_VAR_STRING, False, c.enc(av))
                    if c.qattrs:
                        c.command(bytes([cl.COM_STMT_EXECUTE]) + sid + b"\x08" + struct.pack("<I", 1) + cl.lenenc(2) + pk.encode_params([p, a], True))
                    else:
                        c.command(bytes([cl.COM_STMT_EXECUTE]) + sid + b"\x00" + struct.pack("<I", 1) + pk.encode_params([p], False))
                    steps.append("KText")
                    got = log[-1] if log and log[-1][0] == "query" else None
                    if got is None or text not in got[1] or lit not in got[1]:
                        return dict(problem="prepared-statement text / string parameter garbled (statement prepared earlier in the history)",
                                    charset_now=c.client, sent=(lit, text), got=got and got[1]), steps, views
                    if got[2] != ({an: av} if c.qattrs else {}):
                        return dict(problem="query attributes of COM_STMT_EXECUTE garbled", charset=c.client, sent={an: av}, got=got[2]), steps, views
            elif r < 0.68:
                # COM_FIELD_LIST: the table name travels in the client character set, the definitions come back in the results one
                both = [ch for ch in repertoire(c.client) if c.results in REF and ch in set(repertoire(c.results)) and ch not in " _"]
                if not both:
                    continue
                mk = lambda n: "".join(rng.choice(both) for _ in range(n))   # noqa: E731
                table, cols_ = "t" + mk(3), ["c" + mk(2), "d" + mk(4)]
                TextSession.TABLE = (table, cols_)
                rep = c.command(bytes([cl.COM_FIELD_LIST]) + c.enc(table) + b"\0")
                TextSession.TABLE = None
                steps.append("KText")
                got_names, got_tables = [], []
                for _q, p in rep:
                    if p[:4] == b"\x03def":
                        pos, fields = 0, []
                        for _f in range(6):
                            ln = p[pos]; pos += 1
                            fields.append(p[pos:pos + ln]); pos += ln
                        got_tables.append(fields[2].decode(REF[c.results], errors="replace"))
                        got_names.append(fields[4].decode(REF[c.results], errors="replace"))
                if got_names != cols_ or any(t != table for t in got_tables):
                    return dict(problem="COM_FIELD_LIST: table / column names garbled", client_charset=c.client, results_charset=c.results,
                                declared=(table, cols_), got=(got_tables[:1], got_names)), steps, views
            elif r < 0.8:
                # application query: text in the SQL and in query attributes; result with names / cells in several character sets
                text = sample(rng, c.client)
                sql = f"SELECT c FROM t WHERE x = '{text}'"
                an, av = sample(rng, c.client, 3), sample(rng, c.client, 5)
                col_sets = [rng.choice([n for n in lib_sets if n in REF]) for _ in range(2)]
                names = [sample(rng, c.results if c.results in REF else "ascii", 4) + str(i) for i in range(2)]
                # results repeat within a connection: the same column (name, type, character set) and the same attribute name as
                # in an earlier result of this history, whenever the character sets now in force can express them - what was
                # encoded / decoded for the earlier one must not be what is sent / received now
                rep_res = set(repertoire(c.results if c.results in REF else "ascii"))
                rep_cli = set(repertoire(c.client))
                for i in range(2):
                    cands = [(nm_, cs_) for (j, nm_, cs_) in pool_cols if j == i and all(ch in rep_res for ch in nm_)]
                    if cands and rng.random() < 0.6:
                        names[i], col_sets[i] = rng.choice(cands)
                cands = [a_ for a_ in pool_attrs if all(ch in rep_cli for ch in a_)]
                if cands and rng.random() < 0.6:
                    an = rng.choice(cands)
                pool_cols.extend((i, names[i], col_sets[i]) for i in range(2))
                pool_attrs.append(an)
                cells = [sample(rng, n) for n in col_sets]
                TextSession.NEXT = ("result", ResultSet(rows=[tuple(cells)], columns=[ResultColumn(nm, ColumnType.VARCHAR, character_set=CharacterSet[n])
                                                                                      for nm, n in zip(names, col_sets)]))
                rep = c.decode_reply(c.query(sql, [(an, av)]))
                steps.append("KText")
                got = log[-1] if log else None
                if not got or got[0] != "query" or got[1] != sql:
                    return dict(problem="SQL text garbled on its way to the application", charset=c.client, sent=sql, got=got and got[1]), steps, views
                if got[2] != ({an: av} if c.qattrs else {}):
                    return dict(problem="query attributes garbled", charset=c.client, sent={an: av}, got=got[2]), steps, views
                if rep[0] != "rows" or rep[1] != names:
                    return dict(problem="column names garbled", results_charset=c.results, sent=names, got=rep[1:2]), steps, views
                if rep[2] != [tuple(cells)]:
                    return dict(problem="result strings garbled", column_charsets=col_sets, sent=cells, got=rep[2]), steps, views
            else:
                msg = sample(rng, c.results if c.results in REF else "ascii", 6)
                TextSession.NEXT = ("error", msg)
                rep = c.decode_reply(c.query("SELECT c FROM t"))
                steps.append("KText")
                if rep[0] != "err" or not rep[1].endswith(msg):
                    return dict(problem="error message garbled", results_charset=c.results, sent=msg, got=rep), steps, views
            views.append((c.client, c.results))
            # the server's own view
            if sess is not None:
                sv = (sess.variables.get("character_set_client"), sess.variables.get("character_set_results"))
                if sv != (c.client, c.results):
                    return dict(problem="the server's character sets differ from what a conforming client believes after: " + steps[-1][:120],
                                server=sv, client=(c.client, c.results)), steps, views
        c.c.eof()
        return None, steps, views
    finally:
        env.close()


def run(ctx: core.Ctx):
    rng = ctx.rng
    pr = core.check_proofs(ctx, "Props/C15", headers=[HEADER])
    witness, disagreements = None, []
    lib_sets = library_charsets()

    # ---- the codecs against the reference table, over each repertoire -------------------------------------------------
    ncodec = 0
    per_set = {}
    for name in lib_sets:
        if name not in REF:
            witness = witness or dict(kind="codec", problem=f"character set {name} has a codec in the library but not in the reference table")
            continue
        rep = repertoire(name)
        per_set[name] = len(rep)
        strings = ["".join(rep)] + [sample(rng, name) for _ in range(20 if ctx.quick else 300)]
        for s in strings:
            ncodec += 1
            want = s.encode(REF[name])
            try:
                got = CharacterSet[name].encode(s)
                back = CharacterSet[name].decode(want)
            except Exception as e:  # noqa
                got, back = repr(e), None
            if (got != want or back != s) and witness is None:
                witness = dict(kind="codec", charset=name, text=s[:20], library_bytes=repr(got)[:80], reference_bytes=repr(want)[:80],
                               library_decodes_reference_bytes_as=repr(back)[:40])
    ctx.evals += ncodec
    # every collation id maps to the character set its name says
    for co in Collation:
        ctx.evals += 1
        if co.charset.name != REF_COLL[int(co)] and witness is None:
            witness = dict(kind="collation", collation=co.name, library=co.charset.name, reference=REF_COLL[int(co)])

    # ---- histories through the real connection ---------------------------------------------------------------------------
    rr = repeated_result(ctx, rng)
    if rr:
        witness = witness or dict(kind="repeated-result", **rr)
    wc = wide_client_probe(ctx, rng)
    if wc:
        witness = witness or dict(kind="wide-client-character-set", **wc)
    nh = 60 if ctx.quick else 1500
    hist = []
    for _ in range(nh):
        problem, steps, views = history(ctx, rng, lib_sets)
        hist.append((steps, views))
        if problem and witness is None:
            witness = dict(kind="history", steps=steps, **{k: (repr(v)[:200] if not isinstance(v, str) else v) for k, v in problem.items()})
    ctx.evals += sum(len(s) for s, _ in hist)

    # ---- the model on the same histories: the views after every command ----------------------------------------------------
    terms = ["views " + core.coq_list(["(" + s + ")" for s in steps[:len(views)]]) for steps, views in hist if views]
    try:
        model = core.run_coq_terms(ctx, "c15m", HEADER, terms, shard=20)
        k = 0
        for steps, views in hist:
            if not views:
                continue
            m = model[k]; k += 1
            got = [("".join(chr(x) for x in a), "".join(chr(x) for x in b)) for a, b in m]
            if got != views:
                disagreements.append(dict(kind="views", steps=steps[:len(views)], impl=views, model=got))
    except Exception as e:  # noqa
        disagreements.append(dict(kind="model-not-evaluable", error=str(e)[-500:]))

    if witness is not None:
        core.report_violation(ctx, "text does not cross the wire unchanged in the negotiated character sets", witness)
    if (not pr["ok"] or disagreements) and not ctx.violations:
        core.report_violation(ctx, "proof obligation or model/implementation correspondence no longer checks",
                              dict(kind="unproved", broken=core.proof_failure_summary(ctx), disagreements=disagreements[:3]),
                              no_input=True)
    if not ctx.quick and pr["ok"]:
        core.coqchk(ctx, "Props/C15")
    core.write_evidence(
        ctx,
        rule="(a) every character set of the catalogue that has a codec: CharacterSet.encode / decode against an independently written "
             "table MySQL character set -> codec, on the whole sampled repertoire and random strings from it; every collation id maps to "
             "the character set of its name. (b) histories on the real connection with a reference client that encodes with the character "
             "set it last selected and changes it only on OK: handshake in a random one-byte collation (user, database, connect attributes), "
             "then COM_QUERY (SQL text, query attribute names and values), COM_INIT_DB, prepared statements with string parameters, results "
             "with column names (results character set) and cells in two random column character sets - columns and attribute names of earlier "
             "results of the history are repeated whenever the character sets now in force can express them -, ERR messages, SET NAMES / SET "
             "CHARACTER SET / SET character_set_client / character_set_results / statements the server must refuse as a whole / "
             "COM_CHANGE_USER with a two-byte collation; after every command what the application received and what the client decoded "
             "are compared with what was sent, and the server's two variables with the client's belief and with the model. distinct = histories",
        samples=[dict(steps=hist[0][0][:6])], distinct=len(hist),
        extra=dict(histories=len(hist), codec_strings=ncodec, repertoire_sizes=per_set, disagreements=len(disagreements),
                   observation="MySQL's latin1 is cp1252; library and reference table both use ISO-8859-1, the code points 0x80-0x9F are not sampled",
                   charsets_without_codec=[cs.name for cs in CharacterSet if cs.name not in lib_sets]),
        assumptions=["the codecs themselves are CPython's; the theorems are about which codec is applied where and when",
                     "utf16 / utf32 / ucs2 are exercised as column and results character sets only (MySQL refuses them for clients: NUL bytes)"],
    )
