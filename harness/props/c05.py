"""C05 - Clients decode exactly the values the application returned (text and binary)."""
from __future__ import annotations

import asyncio
import itertools
import struct
from datetime import date, datetime, timedelta

import core
import client as cl
import impl

from mysql_mimic import packets
from mysql_mimic.results import ResultColumn, ensure_result_set, infer_type
from mysql_mimic.types import ColumnType as CT

HEADER = """From Coq Require Import List NArith ZArith Bool.
From MM Require Import Lib.Bytes Lib.Bitmap Lib.Decimal Model.Values.
Import ListNotations. Open Scope N_scope.
Definition chk_time (us : Z) (b t : bytes) := (match dec_bin_time b with Some (z, []) => Z.eqb z us | _ => false end,
                                               match dec_text_time t with Some z => Z.eqb z us | None => false end).
Definition eq7 (a b : N * N * N * N * N * N * N) : bool :=
  let '(a1, a2, a3, a4, a5, a6, a7) := a in let '(b1, b2, b3, b4, b5, b6, b7) := b in
  (a1 =? b1) && (a2 =? b2) && (a3 =? b3) && (a4 =? b4) && (a5 =? b5) && (a6 =? b6) && (a7 =? b7).
Definition chk_dt (f : N * N * N * N * N * N * N) (b t : bytes) :=
  (match dec_bin_datetime b with Some (g, []) => eq7 f g | _ => false end,
   match dec_text_datetime t with Some g => eq7 f g | None => false end).
"""

INT_TYPES = {CT.TINY: 1, CT.SHORT: 2, CT.YEAR: 2, CT.LONG: 4, CT.INT24: 4, CT.LONGLONG: 8}
STR_TYPES = [CT.VARCHAR, CT.VAR_STRING, CT.STRING, CT.BLOB, CT.DECIMAL, CT.JSON]


def coq_value(v, ty=None):
    if v is None:
        return "VNull"
    if isinstance(v, bool):
        return f"(VBool {core.coq_bool(v)})"
    if isinstance(v, int):
        return f"(VInt ({v})%Z)"
    if isinstance(v, str):
        return f"(VStr {core.coq_N_list(v.encode('utf8'))})"
    if isinstance(v, bytes):
        return f"(VBytes {core.coq_N_list(v)})"
    if isinstance(v, float):
        raw = struct.pack("<f" if ty == CT.FLOAT else "<d", v)
        return f"(VFloat {core.coq_N_list(str(v).encode())} {core.coq_N_list(raw)})"
    if isinstance(v, datetime):
        return f"(VDateTime {v.year} {v.month} {v.day} {v.hour} {v.minute} {v.second} {v.microsecond})"
    if isinstance(v, date):
        return f"(VDate {v.year} {v.month} {v.day})"
    if isinstance(v, timedelta):
        us = (v.days * 86400 + v.seconds) * 1000000 + v.microseconds
        return f"(VDuration ({us})%Z)"
    raise TypeError(v)


def domain(rng, ty):
    """values across the domain of a column type (boundaries, sign, fractions, multi-byte, empty, long)"""
    if ty in INT_TYPES:
        k = INT_TYPES[ty]
        lo, hi = -(256 ** k) // 2, 256 ** k // 2 - 1
        return [lo, hi, 0, 1, -1, 5, lo + 1, hi - 1, rng.randint(lo, hi)] + ([True, False] if ty == CT.TINY else [])
    if ty == CT.BOOL:
        return [True, False, 0, 1]
    if ty in STR_TYPES:
        return ["", "a", "héllo wörld", "日本語", "x" * 250, "y" * 251, "z" * 300, b"\x00\xff bytes", 12, 3.5] + (["q" * 66000] if ty == CT.BLOB else [])
    if ty in (CT.FLOAT,):
        return [0.0, 1.5, -2.25, 3.0]
    if ty == CT.DOUBLE:
        return [0.0, 1.5, -2.25, 0.1, 1e100, -1e-300, 1 / 3]
    if ty == CT.DATE:
        return [date(1, 1, 1), date(9999, 12, 31), date(2024, 2, 29), datetime(2020, 5, 6, 7, 8, 9)] + [rand_dt(rng).date() for _ in range(4)]
    if ty in (CT.DATETIME, CT.TIMESTAMP):
        return [datetime(1, 1, 1), datetime(9999, 12, 31, 23, 59, 59, 999999), datetime(2024, 2, 29, 13, 0, 0), datetime(2000, 1, 1, 0, 0, 0, 5), date(2021, 3, 4),
                datetime(1999, 12, 31, 0, 0, 1), datetime(1999, 12, 31, 0, 1, 0), datetime(1999, 12, 31, 1, 0, 0), datetime(256, 1, 1, 0, 0, 0, 256 ** 2)] + [rand_dt(rng) for _ in range(6)]
    if ty == CT.TIME:
        return [timedelta(0), timedelta(seconds=1), timedelta(seconds=-1), timedelta(hours=25), timedelta(days=-2, hours=-3), timedelta(microseconds=1),
                timedelta(microseconds=-1), timedelta(days=34, hours=23, minutes=59, seconds=59, microseconds=999999), timedelta(hours=-838, minutes=-59, seconds=-59),
                timedelta(seconds=rng.randint(-10 ** 7, 10 ** 7), microseconds=rng.randint(0, 999999))]
    return []


def rand_dt(rng):
    """dates with each time field independently zero or not (the encodings branch on which trailing fields are zero)"""
    z = lambda hi: 0 if rng.random() < 0.5 else rng.randint(1, hi)  # noqa: E731
    return datetime(rng.randint(1, 9999), rng.randint(1, 12), rng.randint(1, 28), z(23), z(59), z(59), z(999999))


TYPES = list(INT_TYPES) + [CT.BOOL] + STR_TYPES + [CT.FLOAT, CT.DOUBLE, CT.DATE, CT.DATETIME, CT.TIMESTAMP, CT.TIME]


def py_equal(app, ty, kind, got):
    """does the decoded value equal the application's value (decoders: reference, in Python, for ints/strings only)"""
    return True


def _lenenc(p, i):
    b = p[i]
    if b < 251:
        return b, i + 1
    if b == 0xFC:
        return int.from_bytes(p[i + 1:i + 3], "little"), i + 3
    if b == 0xFD:
        return int.from_bytes(p[i + 1:i + 4], "little"), i + 4
    return int.from_bytes(p[i + 1:i + 9], "little"), i + 9


def strict_rows(raw, binary):
    """decode one result-set response strictly; returns list of rows of bytes/None, or raises ValueError"""
    pk = cl.split_raw(raw)
    seqs = [q for q, _ in pk]
    if seqs != [(1 + i) % 256 for i in range(len(pk))]:
        raise ValueError(f"sequence ids {seqs[:8]}...")
    ncols, i = _lenenc(pk[0][1], 0)
    if i != len(pk[0][1]) or ncols == 0:
        raise ValueError(f"first packet is not a column count: {pk[0][1][:12].hex()}")
    pos = 1
    for _ in range(ncols):
        if pk[pos][1][:4] != b"\x03def":
            raise ValueError(f"packet {pos} is not a column definition: {pk[pos][1][:12].hex()}")
        pos += 1
    if not (pk[pos][1][:1] == b"\xfe" and len(pk[pos][1]) < 9):
        raise ValueError("no EOF after the column definitions")
    pos += 1
    rows = []
    while True:
        p = pk[pos][1]
        pos += 1
        if p[:1] == b"\xfe" and len(p) < 9:
            break
        row = []
        if binary:
            if p[0] != 0:
                raise ValueError("binary row header")
            nb = (ncols + 9) // 8
            bitmap, j = p[1:1 + nb], 1 + nb
            for c in range(ncols):
                if bitmap[(c + 2) // 8] & (1 << ((c + 2) % 8)):
                    row.append(None)
                else:
                    ln, j = _lenenc(p, j)
                    row.append(p[j:j + ln]); j += ln
        else:
            j = 0
            for c in range(ncols):
                if p[j] == 0xFB:
                    row.append(None); j += 1
                else:
                    ln, j = _lenenc(p, j)
                    row.append(p[j:j + ln]); j += ln
        if j != len(p):
            raise ValueError("row packet has trailing bytes")
        rows.append(tuple(row))
    if pos != len(pk):
        raise ValueError("packets after the terminator")
    return rows


def wire_strings(rng, ctx):
    sizes = [0, 1, 250, 251, 300, 32000, 32763, 32764, 32768, 40000, 65535, 65536, 70000]
    shapes = []
    for big in sizes:
        shapes.append([("a" * 3, "x" * big)])
        shapes.append([("h", "t"), ("y" * big, None), ("z", "é" * (big // 2))])
    if not ctx.quick:
        for _ in range(40):
            shapes.append([tuple(rng.choice([None, "q" * rng.choice(sizes)]) for _ in range(3)) for _ in range(rng.randint(1, 4))])
    box = {}

    class S(impl.ScriptSession):
        async def handle_query(self, sql, attrs):
            return box["result"]

    for rows in shapes:
        ncols = len(rows[0])
        for typed in (True, False):
            cols = [ResultColumn(f"c{i}", CT.VARCHAR) for i in range(ncols)] if typed else [f"c{i}" for i in range(ncols)]
            if not typed and any(all(r[i] is None for r in rows) for i in range(ncols)):
                continue
            for binary in (False, True):
                env = impl.Env(own_sleep=False)
                try:
                    box["result"] = (rows, cols)
                    srv = impl.make_server(env, lambda: S(env, 0))
                    c = impl.Conn(env, srv)
                    env.settle(); c.take()
                    c.feed(cl.frame(cl.handshake_response(user=b"u"), 1)); c.take()
                    if binary:
                        c.feed(cl.frame(bytes([cl.COM_STMT_PREPARE]) + b"SELECT 1", 0))
                        sid = cl.split_raw(c.take())[0][1][1:5]
                        c.feed(cl.frame(bytes([cl.COM_STMT_EXECUTE]) + sid + b"\x00" + (1).to_bytes(4, "little"), 0))
                    else:
                        c.feed(cl.frame(bytes([cl.COM_QUERY]) + b"SELECT 1", 0))
                    raw = c.take()
                    ctx.evals += 1
                    want = [tuple(None if v is None else v.encode("utf8") for v in r) for r in rows]
                    try:
                        got = strict_rows(raw, binary)
                    except (ValueError, IndexError) as e:
                        return dict(kind="wire-result", protocol="binary" if binary else "text", typed_columns=typed,
                                    cell_sizes=[[None if v is None else len(v.encode("utf8")) for v in r] for r in rows], problem=str(e)[:200])
                    if got != want:
                        return dict(kind="wire-result", protocol="binary" if binary else "text", typed_columns=typed,
                                    cell_sizes=[[None if v is None else len(v.encode("utf8")) for v in r] for r in rows],
                                    problem="decoded values differ from what the application returned")
                finally:
                    env.close()
    return None



def reused_columns(ctx):
    """an application that declares its ResultColumn objects ONCE (a module-level list) and returns them with every result, served
    to clients with different results character sets - two servers in one process, or one connection across SET NAMES: every
    client decodes the declared names, in the text and the binary protocol, whichever was served first"""
    names = ["pr\u00e9nom", "\u00e2ge", "plain"]
    for order in (("utf8mb4", "latin1"), ("latin1", "utf8mb4")):
        cols = [ResultColumn(names[0], CT.VARCHAR), ResultColumn(names[1], CT.LONGLONG), ResultColumn(names[2], CT.VARCHAR)]
        rows = [("x", 1, "y")]

        made = []

        class S(impl.ScriptSession):
            async def handle_query(self, sql, attrs):
                return rows, cols

        def factory():
            made.append(S(env, 0))
            return made[-1]

        env = impl.Env(own_sleep=False)
        try:
            servers = {cs: impl.make_server(env, factory) for cs in order}
            for step, cs in enumerate(order + order[:1]):
                for binary in (False, True):
                    c = impl.Conn(env, servers[cs], cid=step * 2 + int(binary))
                    env.settle(); c.take()
                    c.feed(cl.frame(cl.handshake_response(user=b"u", charset=45), 1)); c.take()
                    if cs != "utf8mb4":
                        # (through the real Session the statement would be handled by the library; this application-level
                        #  session gets it as a query, so the variable is set directly - the effect of SET NAMES)
                        for v in ("character_set_client", "character_set_connection", "character_set_results"):
                            made[-1].variables.set(v, cs)
                    if binary:
                        c.feed(cl.frame(bytes([cl.COM_STMT_PREPARE]) + b"SELECT 1", 0))
                        sid = cl.split_raw(c.take())[0][1][1:5]
                        c.feed(cl.frame(bytes([cl.COM_STMT_EXECUTE]) + sid + b"\x00" + (1).to_bytes(4, "little"), 0))
                    else:
                        c.feed(cl.frame(bytes([cl.COM_QUERY]) + b"SELECT 1", 0))
                    ctx.evals += 1
                    got = []
                    for _q, p, _n in cl.reassemble(c.take()):
                        if p[:4] == b"\x03def":
                            pos, fields = 0, []
                            for _f in range(6):
                                ln = p[pos]; pos += 1
                                fields.append(p[pos:pos + ln]); pos += ln
                            got.append(fields[4])
                    want = [n.encode("utf8" if cs == "utf8mb4" else "latin1") for n in names]
                    c.eof()
                    if got != want:
                        return dict(kind="reused-result-columns", served_in_order=list(order + order[:1])[:step + 1], client_results_character_set=cs,
                                    protocol="binary" if binary else "text", declared=names, received=[g.hex() for g in got], expected=[w.hex() for w in want])
        finally:
            env.close()
    return None


def run(ctx: core.Ctx):
    rng = ctx.rng
    pr = core.check_proofs(ctx, "Props/C05", headers=[HEADER])
    disagreements, witness = [], None
    distinct = set()

    # ---- cells: implementation encoders vs the model, byte for byte ---------------------------------------------
    cells = []
    for ty in TYPES:
        for v in domain(rng, ty):
            cells.append((ty, v))
    tterms = [f"text_cell {int(ty)} {coq_value(v, ty)}" for ty, v in cells]
    bterms = [f"bin_cell {int(ty)} {coq_value(v, ty)}" for ty, v in cells]
    tm = core.run_coq_terms(ctx, "c05t", HEADER, tterms, shard=40)
    bm = core.run_coq_terms(ctx, "c05b", HEADER, bterms, shard=40)
    kinds = {}
    for (ty, v), mt, mb in zip(cells, tm, bm):
        col = ResultColumn("c", ty)
        distinct.add((int(ty), repr(v)))
        kinds[ty.name] = kinds.get(ty.name, 0) + 1
        for proto, m, fn in (("text", mt, col.text_encode), ("binary", mb, col.binary_encode)):
            try:
                got = ("Some", list(fn(v)))
            except Exception as e:  # noqa
                got = ("None", type(e).__name__)
            mm = ("Some", m[1]) if isinstance(m, tuple) and m[0] == "Some" else ("None",)
            if got[0] != mm[0] or (got[0] == "Some" and got[1] != mm[1]):
                if got[0] == "None" and mm[0] == "None":
                    continue
                disagreements.append(dict(kind=f"{proto}-cell", type=ty.name, value=repr(v), impl=repr(got)[:200], model=repr(mm)[:200]))

    # ---- the property with the reference decoders (in Coq) applied to the implementation's bytes ---------------------
    durs = [v for ty, v in cells if ty == CT.TIME]
    col = ResultColumn("t", CT.TIME)
    terms = []
    for v in durs:
        us = (v.days * 86400 + v.seconds) * 1000000 + v.microseconds
        try:
            b, t = col.binary_encode(v), col.text_encode(v)
        except Exception as e:  # noqa
            witness = witness or dict(kind="time-encode", value=repr(v), error=repr(e))
            continue
        terms.append((v, f"chk_time ({us})%Z {core.coq_N_list(b)} {core.coq_N_list(t)}", b, t))
    res = core.run_coq_terms(ctx, "c05d", HEADER, [t[1] for t in terms])
    for (v, _, b, t), r in zip(terms, res):
        if r != (True, True) and witness is None:
            witness = dict(kind="TIME", value=repr(v), binary=list(b), text=t.decode(), decodes_binary=r[0], decodes_text=r[1])
    for ty, v in cells:
        if ty in INT_TYPES and not isinstance(v, bool):
            k = INT_TYPES[ty]
            col = ResultColumn("c", ty)
            b, t = col.binary_encode(v), col.text_encode(v)
            if int.from_bytes(b, "little", signed=True) != v or int(t.decode()) != v:
                witness = witness or dict(kind="INT", type=ty.name, value=v, binary=list(b), text=t.decode())
    dts = [(ty, v) for ty, v in cells if ty in (CT.DATE, CT.DATETIME, CT.TIMESTAMP)]
    terms = []
    for ty, v in dts:
        col = ResultColumn("c", ty)
        f = (v.year, v.month, v.day) + ((v.hour, v.minute, v.second, v.microsecond) if isinstance(v, datetime) else (0, 0, 0, 0))
        try:
            b, t = col.binary_encode(v), col.text_encode(v)
        except Exception as e:  # noqa
            witness = witness or dict(kind="date-encode", type=ty.name, value=repr(v), error=repr(e))
            continue
        terms.append((ty, v, "chk_dt (%s) %s %s" % (", ".join(map(str, f)), core.coq_N_list(b), core.coq_N_list(t)), b, t))
    res = core.run_coq_terms(ctx, "c05dt", HEADER, [t[2] for t in terms])
    for (ty, v, _, b, t), r in zip(terms, res):
        if r != (True, True) and witness is None:
            witness = dict(kind="DATE/DATETIME", type=ty.name, value=repr(v), binary=list(b), text=t.decode(), decodes_binary=r[0], decodes_text=r[1])

    # ---- rows: every NULL pattern for small shapes, bitmap boundaries --------------------------------------------------
    rows_cases = []
    base_vals = [7, "str", timedelta(hours=30), -3]
    base_tys = [CT.LONGLONG, CT.VARCHAR, CT.TIME, CT.TINY]
    for n in range(0, 5):
        for pat in itertools.product([False, True], repeat=n):
            rows_cases.append(([base_tys[i] for i in range(n)], [None if pat[i] else base_vals[i] for i in range(n)]))
    for n in (6, 7, 8, 14, 15, 16, 22, 23, 40):
        for _ in range(4):
            rows_cases.append(([CT.LONG] * n, [None if rng.random() < 0.4 else rng.randint(-5, 5) for _ in range(n)]))
    terms_t = [f"text_row {core.coq_list([str(int(t)) for t in tys])} {core.coq_list([coq_value(v, t) for v, t in zip(vs, tys)])}" for tys, vs in rows_cases]
    terms_b = [f"bin_row {core.coq_list([str(int(t)) for t in tys])} {core.coq_list([coq_value(v, t) for v, t in zip(vs, tys)])}" for tys, vs in rows_cases]
    mt = core.run_coq_terms(ctx, "c05rt", HEADER, terms_t, shard=40)
    mb = core.run_coq_terms(ctx, "c05rb", HEADER, terms_b, shard=40)
    for (tys, vs), a, b in zip(rows_cases, mt, mb):
        cols = [ResultColumn(f"c{i}", t) for i, t in enumerate(tys)]
        distinct.add(("row", tuple(int(t) for t in tys), repr(vs)))
        gt = list(packets.make_text_resultset_row(vs, cols))
        gb = list(packets.make_binary_resultrow(vs, cols))
        if a != ("Some", gt):
            disagreements.append(dict(kind="text-row", values=repr(vs), impl=gt[:60], model=repr(a)[:200]))
        if b != ("Some", gb):
            disagreements.append(dict(kind="binary-row", values=repr(vs), impl=gb[:60], model=repr(b)[:200]))

    # ---- inference by peeking: rows preserved, names (duplicates included) and types --------------------------------------
    loop = asyncio.new_event_loop()
    try:
        infer_cases = []
        # a column whose first value comes late: k leading NULLs (list and async sources), then a value of each kind
        for k in (1, 5, 99, 100, 101, 150, 400) + (() if ctx.quick else (1000, 5000)):
            for late in (7, "late", 2.5, date(2021, 3, 4)):
                rows = [(i, None) for i in range(k)] + [(k, late), (k + 1, None), (k + 2, late)]
                infer_cases.append((["id", "late"], ["id", "late"], rows, (k + len(str(late))) % 2 == 0))
        for _ in range(60 if ctx.quick else 1500):
            ncols = rng.randint(1, 4)
            names = [rng.choice(["a", "a", "b", "c"]) for _ in range(ncols)]
            cols = [n if rng.random() < 0.7 else ResultColumn(n, CT.LONGLONG) for n in names]
            nrows = rng.randint(0, 6)
            rows = [tuple(rng.choice([None, None, 1, True, "s", b"b", 2.5, date(2020, 1, 2), datetime(2020, 1, 2, 3, 4, 5), timedelta(seconds=5)])
                          for _ in range(ncols)) for _ in range(nrows)]
            asynchronous = rng.random() < 0.5
            infer_cases.append((names, cols, rows, asynchronous))
        terms = []
        for names, cols, rows, asyn in infer_cases:
            cc = core.coq_list(["None" if isinstance(c, str) else f"(Some {int(c.type)})" for c in cols])
            rr = core.coq_list([core.coq_list([coq_value(v) for v in r]) for r in rows])
            terms.append(f"fst (ensure_cols {cc} {rr})")
        model = core.run_coq_terms(ctx, "c05i", HEADER, terms, shard=60)
        for (names, cols, rows, asyn), m in zip(infer_cases, model):
            distinct.add(("infer", tuple(names), repr(rows)))
            if asyn and len(rows) % 2 == 1:
                # an asynchronous iterable that is not an async generator object
                class Rows:
                    def __init__(self, rs):
                        self.it = iter(rs)

                    def __aiter__(self):
                        return self

                    async def __anext__(self):
                        try:
                            return next(self.it)
                        except StopIteration:
                            raise StopAsyncIteration from None
                src = Rows(list(rows))
            elif asyn:
                async def agen(rows=rows):
                    for r in rows:
                        yield r
                src = agen()
            else:
                src = list(rows)
            try:
                rs = loop.run_until_complete(ensure_result_set((src, list(cols))))
                out_rows = loop.run_until_complete(_collect(rs.rows))
                got_types = [int(c.type) for c in rs.columns]
                got_names = [c.name for c in rs.columns]
            except Exception as e:  # noqa
                witness = witness or dict(kind="inference", names=names, rows=repr(rows), error=repr(e))
                continue
            if out_rows != [tuple(r) for r in rows] or got_names != names:
                witness = witness or dict(kind="inference", names=names, rows=repr(rows)[:400], rows_out=repr(out_rows)[:400], names_out=got_names)
            if got_types != m:
                disagreements.append(dict(kind="inferred-types", names=names, rows=repr(rows)[:400], impl=got_types, model=m))
            # every row must be encodable under the inferred columns, in both protocols (results whose columns hold values of
            # one kind each; a column mixing kinds is the application's mistake)
            homogeneous = all(len({type(r[j]) for r in rows if r[j] is not None}) <= 1 for j in range(len(names))) and \
                all(isinstance(c, str) for c in cols)
            try:
                for r in (out_rows if homogeneous else []):
                    packets.make_text_resultset_row(r, rs.columns)
                    packets.make_binary_resultrow(r, rs.columns)
            except Exception as e:  # noqa
                witness = witness or dict(kind="inference-unencodable", names=names, nrows=len(rows), leading_nulls=next((i for i, r in enumerate(rows) if r[-1] is not None), None),
                                          inferred_types=got_types, error=repr(e), rows_tail=repr(rows[-3:]))
        # an application that keeps its bare column names in ONE list / tuple and returns it with every result: what the first
        # result's inference found must not be what the next result is announced and encoded with
        firsts = [[(1, 2)], [(1, None)], [("a", "b")], [], [(None, None)]]
        seconds = [[(5, "text")], [("x", 7)], [(None, 2.5)], [(date(2020, 1, 2), b"b")], [(3, 4)]]
        for mk in (list, tuple):
            for f in firsts:
                for sec in seconds:
                    shared = mk(["k", "v"])
                    try:
                        loop.run_until_complete(_collect(loop.run_until_complete(ensure_result_set((list(f), shared))).rows))
                        rs2 = loop.run_until_complete(ensure_result_set((list(sec), shared)))
                        out2 = loop.run_until_complete(_collect(rs2.rows))
                        fresh = loop.run_until_complete(ensure_result_set((list(sec), ["k", "v"])))
                        loop.run_until_complete(_collect(fresh.rows))
                        t2, tf = [int(c.type) for c in rs2.columns], [int(c.type) for c in fresh.columns]
                        for r in out2:
                            packets.make_text_resultset_row(r, rs2.columns)
                            packets.make_binary_resultrow(r, rs2.columns)
                    except Exception as e:  # noqa
                        witness = witness or dict(kind="inference-reused-column-names", container=mk.__name__, first_result=repr(f), second_result=repr(sec), error=repr(e))
                        continue
                    distinct.add(("reuse", mk.__name__, repr(f), repr(sec)))
                    if t2 != tf or out2 != [tuple(r) for r in sec] or list(shared) != ["k", "v"]:
                        witness = witness or dict(kind="inference-reused-column-names", container=mk.__name__, first_result=repr(f), second_result=repr(sec),
                                                  types_second=t2, types_on_fresh_names=tf, names_object_after=repr(shared)[:200])
    finally:
        loop.close()

    # ---- end to end: column definitions carry the names in order, duplicates included -----------------------------------
    env = impl.Env(own_sleep=False)
    try:
        class S(impl.ScriptSession):
            async def handle_query(self, sql, attrs):
                return [(1, "x", None), (2, "y", 3)], ["a", "a", "b"]
        srv = impl.make_server(env, lambda: S(env, 0))
        c = impl.Conn(env, srv)
        env.settle(); c.take()
        c.feed(cl.frame(cl.handshake_response(user=b"u"), 1)); c.take()
        c.feed(cl.frame(bytes([cl.COM_QUERY]) + b"SELECT 1", 0))
        pk = cl.reassemble(c.take())
        names = []
        for _, p, _ in pk:
            if p[:4] == b"\x03def":
                i = 4
                fields = []
                for _f in range(5):
                    l = p[i]; fields.append(p[i + 1:i + 1 + l]); i += 1 + l
                names.append(fields[3].decode())
        nrows = sum(1 for _, p, _ in pk if p[:1] in (b"\x01",) and len(p) > 1 and not p.startswith(b"\x03def"))
        if names != ["a", "a", "b"] or pk[0][1] != b"\x03":
            witness = witness or dict(kind="column-definitions", expected=["a", "a", "b"], got=names, first_packet=pk[0][1][:8].hex())
        ctx.evals += 1
    finally:
        env.close()

    # ---- end to end: string cells of every size class (below / at / above the 32 KiB write buffer, above 64 KiB) in both
    #      protocols, decoded by a strict reference client (consecutive sequence ids, count, definitions, rows, terminator)
    w = wire_strings(rng, ctx)
    if w is not None:
        witness = witness or w
    w = reused_columns(ctx)
    if w is not None:
        witness = witness or w
    w = core.realsock_witness(core.realsock(ctx, ["slow_reader"]))     # 12000 rows of 1 kB over real sockets to a slow reader: every row decodes
    if w is not None:
        witness = witness or w

    if witness is not None:
        core.report_violation(ctx, "a client does not decode the value the application returned", witness)
    if (not pr["ok"] or disagreements) and not ctx.violations:
        core.report_violation(ctx, "proof obligation or model/implementation correspondence no longer checks",
                              dict(kind="unproved", broken=core.proof_failure_summary(ctx), disagreements=disagreements[:4]),
                              no_input=True)
    if not ctx.quick and pr["ok"]:
        core.coqchk(ctx, "Props/C05")
    core.write_evidence(
        ctx,
        rule="every supported column type x values across its domain (integer boundaries of every width, booleans, empty / multi-byte / "
             "250-251-300-70000-byte strings, bytes, floats, dates and datetimes incl. year 1 and 9999 and microseconds, durations: "
             "zero, negative, >= 24 h, days, fractional): text and binary cell encoders vs Values.text_cell / bin_cell byte for byte; "
             "the Coq reference decoders applied to the implementation's TIME bytes; pairs of results sharing ONE list / tuple of bare "
             "column names (first result of one kind, second of another) compared with fresh names and encoded in both protocols; rows with every NULL pattern for 0..4 columns "
             "and the bitmap boundaries 6/7/8/14/15/16/22/23/40 columns vs text_row / bin_row; inference by peeking on random "
             "shapes with duplicate bare names, sync and async sources; column definitions end to end. distinct = distinct cases",
        samples=[dict(type=cells[0][0].name, value=repr(cells[0][1]), text=repr(tm[0]), binary=repr(bm[0]))], distinct=len(distinct),
        extra=dict(cells=len(cells), per_type=kinds, row_cases=len(rows_cases), disagreements=len(disagreements)),
        assumptions=["repr(float) and IEEE packing are CPython's (passed to the model as given)", "character-set codecs: C15"],
    )


async def _collect(rows):
    out = []
    if hasattr(rows, "__aiter__"):
        async for r in rows:
            out.append(tuple(r))
    else:
        for r in rows:
            out.append(tuple(r))
    return out
