"""C10 - Every initialised session is closed exactly once; every connection is released."""
from __future__ import annotations

import core
import client as cl
import lockstep as ls
from props.c09 import reference_script, kill_histories

HEADER = ls.HEADER


def terminate(d: ls.Driver, eof=True):
    """whatever state the connection is in: the client goes away (unless the connection was killed: then it has to end by
    itself) and pending work completes"""
    if d.blocked() != "done" and eof:
        d.simple("EvEof")
    for _ in range(60):
        b = d.blocked()
        if b == "done":
            break
        if b == "app":
            d.app_result("void")
        elif b == "row":
            d.simple("EvRowReady")
        elif b == "sleep":
            d.simple("EvTick")
        elif b == "drain":
            d.simple("EvResume")
        elif b == "read":
            if ls._awaiting_auth_reply(d):
                d.simple("EvEof") if not d.reader.at_eof() else None
            break
        else:
            break


def lifecycle_oracle(d: ls.Driver):
    calls = []
    for ob in [d.boot_obs] + d.obs:
        for o in ob[0]:
            if isinstance(o, tuple) and o[0] == "OSess":
                calls.append(o[1])
            elif o in ("OWriterClose", "OCtlRemove"):
                calls.append(o)
    n_close = calls.count("close")
    want = 1 if d.init_returned else 0
    if d.blocked() != "done":
        return dict(problem="connection task still running after the client went away", blocked=d.blocked(), calls=calls[-8:])
    if n_close != want:
        return dict(problem=f"session.close called {n_close} time(s), session {'was' if want else 'was not'} initialised", calls=calls)
    if n_close:
        after = [c for c in calls[calls.index("close") + 1:] if c not in ("OWriterClose", "OCtlRemove")]
        if after:
            return dict(problem=f"session used after close: {after}", calls=calls)
    if calls.count("OWriterClose") != 1 or calls.count("OCtlRemove") != 1:
        return dict(problem="socket not closed / registry entry not removed exactly once", calls=calls[-6:])
    if d.ctl._connections:
        return dict(problem="registry still holds the connection", ids=list(d.ctl._connections))
    import asyncio
    left = [t for t in asyncio.all_tasks(d.env.loop) if not t.done()]
    if left:
        return dict(problem="tasks still pending for the connection", n=len(left))
    return None


def run_faulted(rng, depeof, faults, batch=2):
    """faults: {script position: fault}  fault in ('eof',), ('eofmid', k), ('sockfail',), ('raise', code), ('badseq',)"""
    d = ls.Driver(rng, batch=batch)
    S = reference_script(depeof)
    for i, act in enumerate(S + [None]):
        f = faults.get(i)
        if d.blocked() == "done":
            break
        if f is not None:
            if f[0] == "eof":
                d.simple("EvEof")
            elif f[0] == "eofmid":
                if d.blocked() == "read":
                    d.eof_mid(f[1])
                else:
                    d.simple("EvEof")
            elif f[0] == "badseq":
                if d.blocked() == "read" and not ls._awaiting_auth_reply(d):
                    d.simple("EvBadSeq")   # (inside an auth exchange the stream would be left desynchronised: C07's business)
            elif f[0] == "sockfail":
                d.simple("EvSockFail")
            elif f[0] == "kill":
                for k in f[1]:
                    if d.blocked() != "done":
                        d.kill(k, selfkill=False)
            elif f[0] == "raise":
                if d.blocked() == "app":
                    if d.pending_call() == "get_user":
                        d.decide("ARaise")
                    else:
                        d.app_result("raise", raise_code=f[1])
                    continue
        if act is not None and d.blocked() != "done":
            act(d)
    killed = any(e == "EvKill KC" for e in d.events)
    terminate(d, eof=not killed)
    w = lifecycle_oracle(d)
    if w and killed:
        w["problem"] = "after KILL CONNECTION: " + w["problem"]
    d.close()
    return d, w


def run(ctx: core.Ctx):
    rng = ctx.rng
    pr = core.check_proofs(ctx, "Props/C10", headers=[HEADER])
    n = len(reference_script(False))
    plans = []
    for i in range(n + 1):
        plans.append({i: ("eof",)})
        for k in ((1, 2, 3, 4, 5) if ctx.quick else (1, 2, 3, 4, 5, 6, 8, 11)):
            plans.append({i: ("eofmid", k)})
        plans.append({i: ("sockfail",)})
        plans.append({i: ("raise", None)})
        plans.append({i: ("raise", 1064)})
        plans.append({i: ("badseq",)})
        plans.append({i: ("kill", ["KC"])})
        plans.append({i: ("kill", ["KQ", "KC"])})
        plans.append({i: ("kill", ["KC", "KQ"])})
    single = len(plans)
    pairs = [(i, j) for i in range(n + 1) for j in range(i + 1, n + 1)]
    kinds = [("eof",), ("sockfail",), ("raise", None), ("eofmid", 2)]
    for (i, j) in (rng.sample(pairs, 250) if ctx.quick else pairs):
        plans.append({i: rng.choice(kinds[1:3]), j: rng.choice(kinds)})
    drivers, witness = [], None
    for p in plans:
        d, w = run_faulted(rng, rng.random() < 0.5, p)
        drivers.append(d)
        if w and witness is None:
            witness = dict(kind="lifecycle", faults=repr(p), server_configured_for_tls=d.tls_configured, events=[e[:60] for e in d.events][-25:], **w)
    for _ in range(150 if ctx.quick else 4000):
        d = ls.Driver(rng, batch=rng.choice([None, 2]))
        ls.random_walk(rng, d, rng.choice([15, 30, 50]), faults=True, kills=True, auth_variants=True)
        terminate(d)
        w = lifecycle_oracle(d)
        d.close()
        drivers.append(d)
        if w and witness is None:
            witness = dict(kind="lifecycle", events=[e[:60] for e in d.events][-25:], **w)
    # endings by a kill through the real registry, on targets with a history of earlier kills
    kh = kill_histories(ctx)
    if kh and witness is None:
        witness = dict(kind="lifecycle-after-kills", problems=kh[:4])
    # endings the fake transport cannot produce: the kernel resets the connection (connection_lost with an exception, under TLS too)
    rsw = core.realsock_witness(core.realsock(ctx, ["reset"]))
    if rsw and witness is None:
        witness = rsw
    terms = [ls.coq_term(d) for d in drivers]
    model = core.run_coq_terms(ctx, "c10t", HEADER, terms, shard=40)
    disagreements = []
    ends = {}
    for d, m in zip(drivers, model):
        c = ls.compare(d, m)
        if c:
            disagreements.append(c)
        ends[(d.init_returned, d.task.cancelled() if d.task.done() else None)] = ends.get((d.init_returned, d.task.cancelled() if d.task.done() else None), 0) + 1
    if witness is not None:
        core.report_violation(ctx, "session close / connection release is not exactly-once", witness)
    if (not pr["ok"] or disagreements) and not ctx.violations:
        core.report_violation(ctx, "proof obligation or model/implementation correspondence no longer checks",
                              dict(kind="unproved", broken=core.proof_failure_summary(ctx), disagreements=disagreements[:3]),
                              no_input=True)
    if not ctx.quick and pr["ok"]:
        core.coqchk(ctx, "Props/C10")
    core.write_evidence(
        ctx,
        rule="reference conversation (handshake, streamed queries, prepared statement, open cursor, change user): at every script "
             "position a clean disconnect, a disconnect after 1..11 bytes of the next packet, a socket failure (every later drain raises), "
             "an exception (MysqlError and other) from the pending application callback incl. get_user / init / close, a bad sequence id; "
             "pairs of these; random walks with faults and kills; endings by KILL CONNECTION through the real LocalControl after a history of "
             "KILL QUERYs (props/c09.kill_histories); each run is driven to termination and replayed on Model/Conn.v; oracle: "
             "close count = (init returned), no session call after close, writer closed and registry entry removed exactly once, no task "
             "left. distinct = runs",
        samples=[dict(faults=repr(plans[9]), events=[e[:50] for e in drivers[9].events[:12]])], distinct=len(drivers),
        extra=dict(single_fault_runs=single, runs=len(drivers), disagreements=len(disagreements),
                   endings={f"init_returned={k[0]} cancelled={k[1]}": v for k, v in ends.items()}),
        assumptions=["'socket is closed' is writer.close() on the fake writer; refusal paths before Connection.start (TooManyConnections, "
                     "failing session factory) are outside the quantifier"],
    )
