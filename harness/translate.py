"""Translator: /repo source  ->  coq/theories/Gen/Facts.v   (fail-closed).

Everything in the code that is data or skeleton is regenerated on every run: numeric constants with the
places they occur, enum tables, the system-variable schema, the ordered middleware list, the
try/except skeletons of the connection life cycle.  The theorems in Props/ are stated over these
definitions, so they are re-checked against what the code says now.

If a shape the translator expects is not found, the emitted Facts.v contains a definition that does
not type-check, preceded by a comment with the reason, so every property depending on it fails closed.

Constants and tables are read with `ast` from the source text (not by importing), skeletons likewise;
the enum tables are additionally cross-checked against the imported module by harness/core.py.
"""
from __future__ import annotations

import ast
import os
import sys

REPO = os.environ.get("VERIF_REPO", "/repo")
SRC = os.path.join(REPO, "mysql_mimic")


class Shape(Exception):
    pass


def parse(name):
    with open(os.path.join(SRC, name)) as f:
        return ast.parse(f.read(), filename=name)


def find_class(tree, name):
    for n in tree.body:
        if isinstance(n, ast.ClassDef) and n.name == name:
            return n
    raise Shape(f"class {name} not found")


def find_func(node, name):
    body = node.body
    for n in body:
        if isinstance(n, (ast.FunctionDef, ast.AsyncFunctionDef)) and n.name == name:
            return n
    raise Shape(f"function {name} not found")


def const_int(node):
    """Evaluate an integer constant expression (literals, **, <<, -, +, *, names resolved by caller)."""
    if isinstance(node, ast.Constant) and isinstance(node.value, int) and not isinstance(node.value, bool):
        return node.value
    if isinstance(node, ast.BinOp):
        l, r = const_int(node.left), const_int(node.right)
        if isinstance(node.op, ast.Pow):
            return l ** r
        if isinstance(node.op, ast.LShift):
            return l << r
        if isinstance(node.op, ast.Sub):
            return l - r
        if isinstance(node.op, ast.Add):
            return l + r
        if isinstance(node.op, ast.Mult):
            return l * r
    raise Shape(f"not an integer constant: {ast.dump(node)}")


def call_name(c):
    f = c.func
    parts = []
    while isinstance(f, ast.Attribute):
        parts.append(f.attr)
        f = f.value
    if isinstance(f, ast.Name):
        parts.append(f.id)
    return ".".join(reversed(parts))


def coq_string(s):
    return '"' + s.replace('"', '""') + '"'


def nlist(xs):
    return "[" + "; ".join(str(x) for x in xs) + "]"


# ----------------------------------------------------------------------------- stream.py
def facts_stream():
    tree = parse("stream.py")
    cls = find_class(tree, "MysqlStream")
    out = []
    # __init__: buffer_size default and seq(256)
    init = find_func(cls, "__init__")
    names = [a.arg for a in init.args.args]
    if "buffer_size" not in names:
        raise Shape("MysqlStream.__init__ has no buffer_size parameter")
    default = init.args.defaults[names.index("buffer_size") - (len(names) - len(init.args.defaults))]
    out.append(f"Definition stream_buffer_size : N := {const_int(default)}.")
    seq_sizes = [
        const_int(n.args[0])
        for n in ast.walk(init)
        if isinstance(n, ast.Call) and call_name(n) == "seq" and n.args
    ]
    if len(seq_sizes) != 1:
        raise Shape("expected exactly one seq(<n>) in MysqlStream.__init__")
    out.append(f"Definition stream_seq_size : N := {seq_sizes[0]}.")

    # read(): header fetch method, masks, continuation test
    read = find_func(cls, "read")
    fetches = []
    for n in ast.walk(read):
        if isinstance(n, ast.Await) and isinstance(n.value, ast.Call):
            nm = call_name(n.value)
            if nm in ("self.reader.read", "self.reader.readexactly"):
                a = n.value.args
                if len(a) == 1 and isinstance(a[0], ast.Constant):
                    fetches.append((nm.rsplit(".", 1)[1], a[0].value))
    if len(fetches) != 1:
        raise Shape(f"expected exactly one constant-size header fetch in read(), found {fetches}")
    meth, size = fetches[0]
    out.append(f"Definition stream_header_size : N := {size}.")
    out.append(
        "Definition stream_header_read : hmode := "
        + ("Exactly" if meth == "readexactly" else "UpTo")
        + f".  (* await self.reader.{meth}({size}) *)"
    )
    # with readexactly, an EOF on a packet boundary must still be a clean close:
    if meth == "readexactly":
        handlers = [
            h for n in ast.walk(read) if isinstance(n, ast.Try) for h in n.handlers
            if h.type is not None and "IncompleteReadError" in ast.unparse(h.type)
        ]
        out.append(f"Definition stream_header_eof_handled : bool := {'true' if handlers else 'false'}.")
    else:
        out.append("Definition stream_header_eof_handled : bool := true.")
    masks = {}
    for n in ast.walk(read):
        if isinstance(n, ast.BinOp) and isinstance(n.op, ast.BitAnd):
            try:
                v = const_int(n.right)
            except Shape:
                continue
            masks.setdefault("and", []).append(v)
        if isinstance(n, ast.BinOp) and isinstance(n.op, ast.RShift):
            masks.setdefault("shr", []).append(const_int(n.right))
    if sorted(masks.get("and", [])) != sorted(set(masks.get("and", []))) or len(masks.get("and", [])) != 2 or len(masks.get("shr", [])) != 1:
        raise Shape(f"header decoding masks not recognised: {masks}")
    lo, hi = sorted(masks["and"])
    out.append(f"Definition stream_len_mask : N := {lo}.")
    out.append(f"Definition stream_seq_mask : N := {hi}.")
    out.append(f"Definition stream_seq_shift : N := {masks['shr'][0]}.")
    conts = []
    zero_returns = 0
    for n in ast.walk(read):
        if isinstance(n, ast.If) and isinstance(n.test, ast.Compare) and len(n.test.ops) == 1:
            t = n.test
            if isinstance(t.left, ast.Name) and t.left.id == "payload_length":
                try:
                    v = const_int(t.comparators[0])
                except Shape:
                    continue
                if isinstance(t.ops[0], ast.Lt) and any(isinstance(b, ast.Return) for b in n.body):
                    conts.append(v)
                if isinstance(t.ops[0], ast.Eq) and v == 0 and any(isinstance(b, ast.Return) for b in n.body):
                    zero_returns += 1
    if len(conts) != 1:
        raise Shape(f"read(): expected one `if payload_length < K: return`, found {conts}")
    out.append(f"Definition stream_read_cont : N := {conts[0]}.")

    # write(): the two slices and the continuation test
    write = find_func(cls, "write")
    uppers, lowers, cmps = [], [], []
    for n in ast.walk(write):
        if isinstance(n, ast.Subscript) and isinstance(n.slice, ast.Slice):
            sl = n.slice
            if sl.upper is not None and sl.lower is None:
                uppers.append(const_int(sl.upper))
            elif sl.lower is not None and sl.upper is None:
                lowers.append(const_int(sl.lower))
        if isinstance(n, ast.Compare) and len(n.ops) == 1 and isinstance(n.ops[0], ast.NotEq):
            try:
                cmps.append(const_int(n.comparators[0]))
            except Shape:
                pass
    if not (len(uppers) == len(lowers) == len(cmps) == 1):
        raise Shape(f"write(): slices/compare not recognised: {uppers} {lowers} {cmps}")
    out.append(f"Definition stream_write_take : N := {uppers[0]}.")
    out.append(f"Definition stream_write_drop : N := {lowers[0]}.")
    out.append(f"Definition stream_write_cont : N := {cmps[0]}.")
    # flush rule: `if drain or len(self._buffer) >= self._buffer_size`
    flush = [
        ast.unparse(n.test) for n in ast.walk(write) if isinstance(n, ast.If) and "_buffer_size" in ast.unparse(n.test)
    ]
    if flush != ["drain or len(self._buffer) >= self._buffer_size"]:
        raise Shape(f"write(): flush rule not recognised: {flush}")
    out.append("Definition stream_flush_rule_ge : bool := true.")

    # uint_3 / uint_1 in types.py
    ttree = parse("types.py")
    u3 = ast.unparse(find_func(ttree, "uint_3").body[-1])
    u1 = ast.unparse(find_func(ttree, "uint_1").body[-1])
    if u3 != "return struct.pack('<HB', i & 65535, i >> 16)" or u1 != "return struct.pack('<B', i)":
        raise Shape(f"uint_3/uint_1 changed: {u3!r} {u1!r}")
    out.append("Definition types_uint3_le : bool := true.")
    return out



# ----------------------------------------------------------------------------- control.py / utils.seq / server.py
def class_consts(cls):
    env = {}
    for n in cls.body:
        if isinstance(n, ast.Assign) and len(n.targets) == 1 and isinstance(n.targets[0], ast.Name):
            try:
                env[n.targets[0].id] = const_int_env(n.value, env)
            except Shape:
                pass
    return env


def const_int_env(node, env):
    if isinstance(node, ast.Name) and node.id in env:
        return env[node.id]
    if isinstance(node, ast.BinOp):
        l, r = const_int_env(node.left, env), const_int_env(node.right, env)
        return const_int(ast.BinOp(left=ast.Constant(l), op=node.op, right=ast.Constant(r)))
    return const_int(node)


def body_text(fn):
    """Normalised text of a function body: docstrings, comments and logging calls dropped."""
    out = []
    for st in fn.body:
        if isinstance(st, ast.Expr) and isinstance(st.value, ast.Constant):
            continue
        if isinstance(st, ast.Expr) and isinstance(st.value, ast.Call) and call_name(st.value).startswith("logger."):
            continue
        out.append(ast.unparse(st))
    return "\n".join(out)


def facts_control():
    out = []
    tree = parse("control.py")
    cls = find_class(tree, "LocalControl")
    env = class_consts(cls)
    for k in ("_CONNECTION_ID_BITS", "_MAX_CONNECTION_SEQ", "_MAX_SERVER_ID"):
        if k not in env:
            raise Shape(f"LocalControl.{k} not found")
    out.append(f"Definition control_id_bits : N := {env['_CONNECTION_ID_BITS']}.")
    out.append(f"Definition control_max_seq : N := {env['_MAX_CONNECTION_SEQ']}.")
    out.append(f"Definition control_max_server_id : N := {env['_MAX_SERVER_ID']}.")
    init = find_func(cls, "__init__")
    sid = [st for st in init.body if isinstance(st, ast.Assign) and ast.unparse(st.targets[0]) == "self.server_id"]
    if len(sid) != 1:
        raise Shape("self.server_id assignment not found")
    v = sid[0].value
    rnd = "random.randint(0, self._MAX_SERVER_ID - 1)"
    if isinstance(v, ast.BoolOp) and isinstance(v.op, ast.Or) and [ast.unparse(x) for x in v.values] == ["server_id", rnd]:
        mode = "SidFalsy"
    elif isinstance(v, ast.IfExp) and ast.unparse(v.test) == "server_id is not None" and ast.unparse(v.body) == "server_id" and ast.unparse(v.orelse) == rnd:
        mode = "SidNoneOnly"
    else:
        raise Shape("server_id default not recognised: " + ast.unparse(v))
    out.append(f"Definition control_sid_mode : sid_mode := {mode}.")
    seqs = [const_int_env(n.args[0], {"self._MAX_CONNECTION_SEQ": 0}) if False else ast.unparse(n.args[0])
            for n in ast.walk(init) if isinstance(n, ast.Call) and call_name(n) == "seq"]
    if seqs != ["self._MAX_CONNECTION_SEQ"]:
        raise Shape(f"connection sequence size: {seqs}")
    expected_new = "\n".join([
        "if len(self._connections) >= self._MAX_CONNECTION_SEQ:\n    raise TooManyConnections()",
        "server_id_prefix = self.server_id % self._MAX_SERVER_ID << self._CONNECTION_ID_BITS",
        "connection_id = server_id_prefix + next(self._connection_seq)",
        "while connection_id in self._connections:\n    connection_id = server_id_prefix + next(self._connection_seq)",
        "return connection_id",
    ])
    got = body_text(find_func(cls, "_new_connection_id"))
    if got != expected_new:
        raise Shape("_new_connection_id changed:\n" + got)
    out.append("Definition control_new_id_skeleton_ok : bool := true.")
    exp = {
        "add": "connection_id = self._new_connection_id()\nself._connections[connection_id] = connection\nreturn connection_id",
        "remove": "self._connections.pop(connection_id, None)",
        "kill": "conn = self._connections.get(connection_id)\nif conn:\n    conn.kill(kind)",
    }
    for k, e in exp.items():
        got = body_text(find_func(cls, k))
        if got != e:
            raise Shape(f"LocalControl.{k} changed:\n{got}")
    out.append("Definition control_add_remove_kill_ok : bool := true.")
    ut = parse("utils.py")
    sq = find_class(ut, "seq")
    nx = body_text(find_func(sq, "__next__"))
    if nx != "value = self.value\nself.value = self.value + 1\nif self.size:\n    self.value = self.value % self.size\nreturn value":
        raise Shape("seq.__next__ changed:\n" + nx)
    if body_text(find_func(sq, "reset")) != "self.value = 0":
        raise Shape("seq.reset changed")
    out.append("Definition utils_seq_ok : bool := true.")
    # server.py: TooManyConnections -> ERR CON_COUNT_ERROR, and the finally of the callback
    sv = parse("server.py")
    cb = find_func(find_class(sv, "MysqlServer"), "_client_connected_cb")
    codes = []
    for n in ast.walk(cb):
        if isinstance(n, ast.ExceptHandler) and n.type is not None and ast.unparse(n.type) == "TooManyConnections":
            txt = "\n".join(ast.unparse(x) for x in n.body)
            for kw in [k for c in ast.walk(n) if isinstance(c, ast.Call) for k in c.keywords if k.arg == "code"]:
                codes.append(ast.unparse(kw.value))
            if not isinstance(n.body[-1], ast.Return):
                raise Shape("TooManyConnections handler does not return")
    if codes != ["ErrorCode.CON_COUNT_ERROR"]:
        raise Shape(f"TooManyConnections handler codes: {codes}")
    er = parse("errors.py")
    ec = class_consts(find_class(er, "ErrorCode"))
    out.append(f"Definition server_too_many_code : N := {ec['CON_COUNT_ERROR']}.")
    allfin = [n for n in ast.walk(cb) if isinstance(n, ast.Try) and n.finalbody]
    # (the refusal paths - no connection object, registry full, registration failed - close the socket after their ERR)
    if any([ast.unparse(x) for x in n.finalbody] not in (["writer.close()"], ["writer.close()", "await self.control.remove(connection_id)"]) for n in allfin):
        raise Shape("callback finally changed")
    fin = [n for n in allfin if len(n.finalbody) == 2]
    if len(fin) != 1:
        raise Shape("callback finally changed")
    if [ast.unparse(x) for x in fin[0].body] != ["return await connection.start()"]:
        raise Shape("callback try body changed")
    out.append("Definition server_cb_finally_ok : bool := true.")
    return out



# ----------------------------------------------------------------------------- packets.py / prepared.py / types.py
# The function bodies the Coq model was transcribed from (normalised text: docstrings, comments and logging
# dropped) live in harness/expected_bodies.json; `translate.py --snapshot <key>...` rewrites entries from the
# current tree (done by hand, after reading the code, when the model is re-transcribed).
import json as _json

_EXPECTED_PATH = os.path.join(os.path.dirname(os.path.abspath(__file__)), "expected_bodies.json")


def expected_bodies():
    with open(_EXPECTED_PATH) as f:
        return _json.load(f)


def current_body(key):
    fname, cls, fn = key.split(":")
    tree = parse(fname)
    if fn.startswith("="):
        name = fn[1:]
        hits = [n for n in tree.body if isinstance(n, (ast.Assign, ast.AnnAssign))
                and ast.unparse(n.targets[0] if isinstance(n, ast.Assign) else n.target) == name]
        if len(hits) != 1:
            raise Shape(f"module-level {name} not found in {fname}")
        return ast.unparse(hits[0].value)
    node = find_class(tree, cls) if cls else tree
    if fn == "*":      # the whole class body (fields of a dataclass, ...)
        return "\n".join(ast.unparse(n) for n in node.body
                         if not (isinstance(n, ast.Expr) and isinstance(n.value, ast.Constant) and isinstance(n.value.value, str)))
    return body_text(find_func(node, fn))


def body_fact(key, out):
    """Emit `<file>_<fn>_ok : bool` comparing the current body with the transcribed one."""
    fname, cls, fn = key.split(":")
    try:
        got = current_body(key)
    except Shape:
        got = None
    ok = got is not None and got in expected_bodies().get(key, [])
    name = fname.split(".")[0] + "_" + (cls.lower() + "_" if cls else "") + ("class" if fn == "*" else fn.lstrip("_=").lower()) + "_ok"
    name = {"connection_connection_start_ok": "connection_connection_start_ok" if fn == "start" else "connection_connection_inner_start_ok"}.get(name, name)
    if not ok:
        shown = (got or "<missing>").replace("*)", "* )").replace('"', "''")
        out.append(f"(* {key} differs from the transcribed shape:\n{shown}\n*)")
    out.append(f"Definition {name} : bool := {'true' if ok else 'false'}.")
    return ok


PACKET_BODIES = [
    "types.py::read_str_null", "types.py::read_uint_len", "types.py::read_str_len", "types.py::uint_len",
    "prepared.py::find_params", "packets.py::_encode_param_as_sql", "packets.py::_read_connect_attrs",
]


FIXED_WIDTH = ["read_int_1", "read_uint_1", "read_int_2", "read_uint_2", "read_uint_3", "read_int_4", "read_uint_4", "read_uint_6",
               "read_int_8", "read_uint_8", "read_float", "read_double", "uint_1", "uint_2", "uint_3", "uint_4", "uint_6", "uint_8",
               "str_fixed", "str_null", "str_len", "str_rest", "read_str_fixed", "read_str_rest", "peek"]


def facts_packets():
    out = []
    trees = {"packets.py": parse("packets.py"), "types.py": parse("types.py")}
    for key in PACKET_BODIES:
        body_fact(key, out)
    # the fixed-width readers / writers every parser and encoder is built from: one aggregated fact
    scratch = []
    allok = all([body_fact("types.py::" + fn, scratch) for fn in FIXED_WIDTH])
    out += [l for l in scratch if l.startswith("(*")]
    out.append(f"Definition types_fixed_width_ok : bool := {'true' if allok else 'false'}.")
    # the interpolation loop must splice by position (no regex substitution of the values)
    pk = trees["packets.py"]
    ip = find_func(pk, "_interpolate_params")
    txt = body_text(ip)
    uses_sub = "REGEX_PARAM.sub" in txt or ".sub(" in txt
    uses_find = "find_params(sql)" in txt
    out.append(f"Definition packets_interpolate_by_position : bool := {'true' if (uses_find and not uses_sub) else 'false'}.")
    cn = parse("connection.py")
    hp = body_text(find_func(find_class(cn, "Connection"), "handle_stmt_prepare"))
    out.append(f"Definition connection_prepare_counts_with_find_params : bool := {'true' if 'num_params = len(find_params(sql))' in hp else 'false'}.")
    # enum tables
    ty = trees["types.py"]
    ct = class_consts(find_class(ty, "ColumnType"))
    out.append("Definition types_column_type_codes : list N := " + nlist(sorted(ct.values())) + ".")
    rv = find_func(pk, "_read_param_value")
    sets = [n for n in ast.walk(rv) if isinstance(n, ast.Set)]
    if not sets:
        raise Shape("_read_param_value: no set literals")
    def codes(setnode):
        r = []
        for e in setnode.elts:
            nm = ast.unparse(e)
            if not nm.startswith("ColumnType."):
                raise Shape("unexpected set element " + nm)
            r.append(ct[nm.split(".", 1)[1]])
        return sorted(r)
    out.append("Definition packets_string_param_types : list N := " + nlist(codes(sets[0])) + ".")
    # Capabilities: IntFlag with auto() -> bit i for the i-th member
    capcls = find_class(ty, "Capabilities")
    members = [n.targets[0].id for n in capcls.body if isinstance(n, ast.Assign) and isinstance(n.value, ast.Call) and call_name(n.value) == "auto"]
    bits = {m: i for i, m in enumerate(members)}
    need = ["CLIENT_PLUGIN_AUTH_LENENC_CLIENT_DATA", "CLIENT_CONNECT_WITH_DB", "CLIENT_PLUGIN_AUTH", "CLIENT_CONNECT_ATTRS",
            "CLIENT_ZSTD_COMPRESSION_ALGORITHM", "CLIENT_SECURE_CONNECTION", "CLIENT_PROTOCOL_41", "CLIENT_QUERY_ATTRIBUTES"]
    for m in need:
        if m not in bits:
            raise Shape("Capabilities." + m + " not found")
    out.append("Definition types_caps_bits_used : list N := " + nlist([bits[m] for m in need]) + ".")
    out.append(f"Definition types_cap_deprecate_eof_bit : N := {bits['CLIENT_DEPRECATE_EOF']}.")
    out.append(f"Definition types_cap_ssl_bit : N := {bits['CLIENT_SSL']}.")
    out.append(f"Definition types_cap_optional_metadata_bit : N := {bits['CLIENT_OPTIONAL_RESULTSET_METADATA']}.")
    cst = parse("constants.py")
    dsc = [n for n in cst.body if isinstance(n, ast.Assign) and ast.unparse(n.targets[0]) == "DEFAULT_SERVER_CAPABILITIES"]
    if len(dsc) != 1:
        raise Shape("DEFAULT_SERVER_CAPABILITIES not found")
    word = 0
    for n in ast.walk(dsc[0].value):
        if isinstance(n, ast.Attribute) and isinstance(n.value, ast.Name) and n.value.id == "Capabilities":
            word |= 1 << bits[n.attr]
    out.append(f"Definition constants_default_server_caps : N := {word}.")
    # collations known to the Collation enum
    ch = parse("charset.py")
    coll = class_consts(find_class(ch, "Collation"))
    cs = class_consts(find_class(ch, "CharacterSet"))
    out.append("Definition charset_collation_ids : list N := " + nlist(sorted(coll.values())) + ".")
    out.append("Definition charset_charset_ids : list N := " + nlist(sorted(cs.values())) + ".")
    return out


# ----------------------------------------------------------------------------- connection life cycle
CONN_BODIES = [
    "connection.py:Connection:start", "connection.py:Connection:_start", "connection.py:Connection:kill",
    "connection.py:Connection:connection_phase", "connection.py:Connection:authenticate",
    "connection.py:Connection:handle_change_user", "connection.py:Connection:command_phase",
    "connection.py:Connection:handle_ping", "connection.py:Connection:handle_reset_connection", "connection.py:Connection:handle_debug",
    "connection.py:Connection:handle_init_db", "connection.py:Connection:handle_field_list", "connection.py:Connection:handle_query",
    "connection.py:Connection:handle_stmt_prepare", "connection.py:Connection:handle_stmt_send_long_data",
    "connection.py:Connection:handle_stmt_execute", "connection.py:Connection:handle_stmt_fetch",
    "connection.py:Connection:handle_stmt_reset", "connection.py:Connection:handle_stmt_close", "connection.py:Connection:get_stmt",
    "connection.py:Connection:query", "connection.py:Connection:ok_or_eof", "connection.py:Connection:text_resultset",
    "connection.py:Connection:com_stmt_prepare_response", "connection.py:Connection:deprecate_eof",
    "stream.py:MysqlStream:write", "stream.py:MysqlStream:drain", "stream.py:MysqlStream:reset_seq",
    "utils.py::cooperative_iterate", "utils.py::aiterate", "constants.py::=DEFAULT_SERVER_CAPABILITIES", "packets.py::make_column_count",
    "packets.py::make_ok", "packets.py::make_eof", "packets.py::make_error", "packets.py::make_column_definition_41", "packets.py::make_handshake_v10",
    "types.py::str_fixed", "types.py::str_null", "types.py::str_len", "types.py::str_rest", "types.py::uint_1", "types.py::uint_2", "types.py::uint_4",
    "errors.py::get_sqlstate",
    "server.py:MysqlServer:_client_connected_cb",
    "connection.py:Connection:__init__", "connection.py:Connection:ok", "connection.py:Connection:eof",
    "packets.py::make_com_stmt_prepare_ok", "packets.py::parse_handle_stmt_fetch", "packets.py::parse_com_stmt_reset",
    "packets.py::parse_com_stmt_close", "packets.py::_read_cursor_flags", "packets.py::_read_param_type", "packets.py::make_auth_more_data",
    "results.py:ResultSet:__bool__", "stream.py:MysqlStream:start_tls",
]


def facts_conn():
    out = []
    for key in CONN_BODIES:
        body_fact(key, out)
    ut = parse("utils.py")
    ci = find_func(ut, "cooperative_iterate")
    names = [a.arg for a in ci.args.args]
    if "batch_size" not in names or not ci.args.defaults:
        raise Shape("cooperative_iterate: batch_size default not found")
    out.append(f"Definition utils_batch_size : N := {const_int(ci.args.defaults[-1])}.")
    st = parse("stream.py")
    init = find_func(find_class(st, "MysqlStream"), "__init__")
    out.append(f"Definition conn_buffer_size : N := {const_int(init.args.defaults[-1])}.")
    cn = parse("connection.py")
    cls = find_class(cn, "Connection")
    env = class_consts(cls)
    out.append(f"Definition conn_max_stmt_id : N := {env['_MAX_PREPARED_STMT_ID']}.")
    er = class_consts(find_class(parse("errors.py"), "ErrorCode"))
    for k in ["HANDSHAKE_ERROR", "UNKNOWN_COM_ERROR", "UNKNOWN_ERROR", "UNKNOWN_PROCEDURE", "ACCESS_DENIED_ERROR",
              "USER_DOES_NOT_EXIST", "SESSION_WAS_KILLED", "MALFORMED_PACKET"]:
        out.append(f"Definition err_{k.lower()} : N := {er[k]}.")
    ss = class_consts(find_class(parse("types.py"), "ServerStatus"))
    out.append(f"Definition status_cursor_exists : N := {ss['SERVER_STATUS_CURSOR_EXISTS']}.")
    out.append(f"Definition status_last_row_sent : N := {ss['SERVER_STATUS_LAST_ROW_SENT']}.")
    return out


# ----------------------------------------------------------------------------- shared mutable state audit (C08)
MUTATORS = {"append", "update", "setdefault", "pop", "clear", "extend", "add", "insert", "remove", "popitem",
            "__setitem__", "discard", "sort", "reverse", "appendleft", "__delitem__"}
MUTABLE_CALLS = {"dict", "list", "set", "defaultdict", "bytearray", "OrderedDict", "deque", "Counter"}


def _is_mutable_value(v):
    if isinstance(v, (ast.Dict, ast.List, ast.Set, ast.ListComp, ast.DictComp, ast.SetComp)):
        return True
    if isinstance(v, ast.Call) and call_name(v).split(".")[-1] in MUTABLE_CALLS:
        return True
    return False


def facts_shared():
    """every module-level / class-level binding of a mutable container, and every place that writes to one"""
    import glob as _glob
    out = []
    shared = []      # "module.name" / "module.Class.name"
    writes = []
    caches = []
    mods = sorted(_glob.glob(os.path.join(SRC, "*.py")))
    trees = {}
    for path in mods:
        mod = os.path.basename(path)[:-3]
        with open(path) as f:
            tree = ast.parse(f.read())
        trees[mod] = tree
        for n in tree.body:
            if isinstance(n, (ast.Assign, ast.AnnAssign)):
                tg = n.targets[0] if isinstance(n, ast.Assign) else n.target
                if isinstance(tg, ast.Name) and n.value is not None and _is_mutable_value(n.value):
                    shared.append(f"{mod}.{tg.id}")
            if isinstance(n, ast.ClassDef):
                for c in n.body:
                    if isinstance(c, (ast.Assign, ast.AnnAssign)):
                        tg = c.targets[0] if isinstance(c, ast.Assign) else c.target
                        if isinstance(tg, ast.Name) and c.value is not None and _is_mutable_value(c.value):
                            shared.append(f"{mod}.{n.name}.{tg.id}")
            if isinstance(n, (ast.FunctionDef, ast.AsyncFunctionDef)):
                for d in n.decorator_list:
                    if "lru_cache" in ast.unparse(d) or "cache" == ast.unparse(d):
                        caches.append(f"{mod}.{n.name}")
    names = {s.split(".")[-1]: s for s in shared}
    for mod, tree in trees.items():
        for fn in [x for x in ast.walk(tree) if isinstance(x, (ast.FunctionDef, ast.AsyncFunctionDef))]:
            local = {a.arg for a in fn.args.args + fn.args.kwonlyargs}
            for x in ast.walk(fn):
                if isinstance(x, ast.Assign):
                    for t in x.targets:
                        if isinstance(t, ast.Name):
                            local.add(t.id)
            def base_name(e):
                while isinstance(e, (ast.Subscript, ast.Attribute)) and not (isinstance(e, ast.Attribute) and isinstance(e.value, ast.Name) and e.value.id in ("self", "cls")):
                    e = e.value
                if isinstance(e, ast.Name):
                    return e.id
                if isinstance(e, ast.Attribute):
                    return e.attr
                return None
            for x in ast.walk(fn):
                tgt = None
                if isinstance(x, (ast.Assign, ast.AugAssign, ast.Delete)):
                    ts = x.targets if isinstance(x, (ast.Assign, ast.Delete)) else [x.target]
                    for t in ts:
                        if isinstance(t, ast.Subscript):
                            tgt = base_name(t.value)
                        elif isinstance(x, ast.AugAssign) and isinstance(t, ast.Name) and t.id in names and t.id not in local:
                            tgt = t.id
                        if tgt and tgt in names and tgt not in local:
                            writes.append(f"{mod}.{fn.name}:{names[tgt]}")
                if isinstance(x, ast.Global):
                    for g in x.names:
                        writes.append(f"{mod}.{fn.name}:global {g}")
                if isinstance(x, ast.Call) and isinstance(x.func, ast.Attribute) and x.func.attr in MUTATORS:
                    b = base_name(x.func.value)
                    if b and b in names and b not in local:
                        # a class-level name reached through self.<name> counts only if the instance never rebinds it
                        writes.append(f"{mod}.{fn.name}:{names[b]}")
    # instance attributes assigned in __init__ shadow class-level names: drop writes to names rebound in any __init__
    rebound = set()
    for mod, tree in trees.items():
        for fn in [x for x in ast.walk(tree) if isinstance(x, ast.FunctionDef) and x.name == "__init__"]:
            for x in ast.walk(fn):
                if isinstance(x, (ast.Assign, ast.AnnAssign)):
                    t = x.targets[0] if isinstance(x, ast.Assign) else x.target
                    if isinstance(t, ast.Attribute) and isinstance(t.value, ast.Name) and t.value.id == "self":
                        rebound.add(t.attr)
    writes = sorted({w for w in writes if w.split(".")[-1] not in rebound or w.split(":")[1].count(".") == 1})
    out.append("Definition shared_mutable_bindings : list string := " + "[" + "; ".join(coq_string(x) for x in sorted(shared)) + "]%string.")
    out.append("Definition shared_writes : list string := " + "[" + "; ".join(coq_string(x) for x in writes) + "]%string.")
    out.append("Definition shared_memo_caches : list string := " + "[" + "; ".join(coq_string(x) for x in sorted(caches)) + "]%string.")
    # per-connection objects are created per accepted socket
    sv = trees["server"]
    cb = body_text(find_func(find_class(sv, "MysqlServer"), "_client_connected_cb"))
    per_conn = all(k in cb for k in ["stream = MysqlStream(reader, writer)", "session = self.session_factory()", "connection = Connection("])
    out.append(f"Definition server_objects_per_connection : bool := {'true' if per_conn else 'false'}.")
    se = trees["session"]
    init = body_text(find_func(find_class(se, "Session"), "__init__"))
    out.append(f"Definition session_own_variables : bool := {'true' if 'self.variables = variables or SessionVariables(GlobalVariables())' in init else 'false'}.")
    cn = trees["connection"]
    cinit = body_text(find_func(find_class(cn, "Connection"), "__init__"))
    ok = "self.prepared_stmts: Dict[int, PreparedStatement] = {}" in cinit and "self.prepared_stmt_seq = seq(self._MAX_PREPARED_STMT_ID)" in cinit
    out.append(f"Definition connection_own_statements : bool := {'true' if ok else 'false'}.")
    return out


# ----------------------------------------------------------------------------- auth.py / utils.xor / nonce
AUTH_BODIES = [
    "auth.py:NativePasswordAuthPlugin:auth", "auth.py:NativePasswordAuthPlugin:password_matches",
    "auth.py:NativePasswordAuthPlugin:verify_scramble", "auth.py:NativePasswordAuthPlugin:empty_password_quickpath",
    "auth.py:NativePasswordAuthPlugin:create_auth_string",
    "auth.py:AbstractClearPasswordAuthPlugin:auth", "auth.py:NoLoginAuthPlugin:auth", "auth.py:AuthPlugin:start",
    "utils.py::xor", "utils.py::nonce", "packets.py::make_handshake_v10",
    "connection.py:Connection:authenticate", "connection.py:Connection:connection_phase", "connection.py:Connection:handle_change_user",
    "packets.py::make_auth_switch_request", "packets.py::parse_handshake_response_41", "packets.py::parse_com_change_user",
]


def facts_auth():
    import string as _string
    out = []
    for key in AUTH_BODIES:
        body_fact(key, out)
    ut = parse("utils.py")
    snc = [n for n in ut.body if isinstance(n, ast.Assign) and ast.unparse(n.targets[0]) == "SAFE_NONCE_CHARS"]
    if len(snc) != 1:
        raise Shape("SAFE_NONCE_CHARS not found")
    val = eval(compile(ast.Expression(snc[0].value), "utils.py", "eval"), {"string": _string, "__builtins__": {}})
    if not isinstance(val, bytes):
        raise Shape("SAFE_NONCE_CHARS is not bytes")
    out.append("Definition utils_safe_nonce_chars : list N := " + nlist(list(val)) + ".")
    au = parse("auth.py")
    fl = [n for n in au.body if isinstance(n, ast.Assign) and ast.unparse(n.targets[0]) == "FILLER"]
    val = eval(compile(ast.Expression(fl[0].value), "auth.py", "eval"), {"__builtins__": {}})
    out.append("Definition auth_filler : list N := " + nlist(list(val)) + ".")
    npl = find_class(au, "NativePasswordAuthPlugin")
    consts = {}
    for n in npl.body:
        if isinstance(n, ast.Assign) and isinstance(n.value, ast.Constant):
            consts[n.targets[0].id] = n.value.value
    out.append(f"Definition auth_native_names_ok : bool := {'true' if consts.get('name') == 'mysql_native_password' and consts.get('client_plugin_name') == 'mysql_native_password' else 'false'}.")
    return out


# ----------------------------------------------------------------------------- results.py
RESULT_BODIES = [
    "results.py::=_TEXT_ENCODERS", "results.py::=_BINARY_ENCODERS", "results.py::=_PY_TO_MYSQL_TYPE",
    "results.py::_binary_encode_tiny", "results.py::_binary_encode_str", "results.py::_binary_encode_date",
    "results.py::_binary_encode_short", "results.py::_binary_encode_int", "results.py::_binary_encode_long",
    "results.py::_binary_encode_longlong", "results.py::_binary_encode_float", "results.py::_binary_encode_double",
    "results.py::_timedelta_parts", "results.py::_text_encode_timedelta", "results.py::_binary_encode_timedelta",
    "results.py::_text_encode_str", "results.py::_text_encode_tiny", "results.py::infer_type",
    "results.py::_ensure_result_cols", "results.py::ensure_result_set",
    "results.py:NullBitmap:new", "results.py:NullBitmap:from_buffer", "results.py:NullBitmap:_num_bytes",
    "results.py:NullBitmap:flip", "results.py:NullBitmap:is_flipped", "results.py:NullBitmap:_pos",
    "packets.py::make_text_resultset_row", "packets.py::make_binary_resultrow", "packets.py::make_column_definition_41",
    "packets.py::make_column_count", "types.py::str_len",
]


def facts_results():
    out = []
    for key in RESULT_BODIES:
        body_fact(key, out)
    return out


# ----------------------------------------------------------------------------- schema.py / catalog
CATALOG_BODIES = [
    "schema.py::like_to_regex", "schema.py::mapping_to_columns", "schema.py::info_schema_tables",
    "schema.py::show_statement_to_info_schema_query", "schema.py::com_field_list_to_show_statement", "schema.py::ensure_info_schema",
    "schema.py:InfoSchema:query", "schema.py:InfoSchema:from_mapping", "utils.py::dict_depth",
    "session.py:Session:_show_variables", "session.py:Session:_show", "session.py:Session:_describe_middleware",
    "session.py:Session:_show_middleware", "session.py:Session:_query_info_schema",
]


def facts_catalog():
    out = []
    for key in CATALOG_BODIES:
        body_fact(key, out)
    cst = parse("constants.py")
    info = [n for n in cst.body if isinstance(n, ast.Assign) and ast.unparse(n.targets[0]) == "INFO_SCHEMA"]
    if len(info) != 1 or not isinstance(info[0].value, ast.Dict):
        raise Shape("INFO_SCHEMA not found")
    dbs = [k.value for k in info[0].value.keys]
    out.append("Definition constants_info_schema_dbs : list string := [" + "; ".join(coq_string(d) for d in dbs) + "]%string.")
    return out


# ----------------------------------------------------------------------------- charset.py
def cps(s):
    return "[" + ";".join(str(ord(c)) for c in s) + "]"


def enum_members(cls):
    out = []
    for n in cls.body:
        if isinstance(n, ast.Assign) and len(n.targets) == 1 and isinstance(n.targets[0], ast.Name):
            out.append((n.targets[0].id, const_int(n.value)))
    return out


def charset_tables():
    tree = parse("charset.py")
    cs = enum_members(find_class(tree, "CharacterSet"))
    co = enum_members(find_class(tree, "Collation"))
    if len(cs) < 10 or len(co) < 100:
        raise Shape("charset enums too small")
    maps = {}
    for n in tree.body:
        if isinstance(n, ast.Assign) and isinstance(n.value, ast.Dict) and isinstance(n.targets[0], ast.Name):
            d = []
            for k, v in zip(n.value.keys, n.value.values):
                if not (isinstance(k, ast.Attribute) and isinstance(v, ast.Attribute)):
                    raise Shape(f"{n.targets[0].id}: entry shape")
                d.append((k.attr, v.attr))
            maps[n.targets[0].id] = d
    if set(maps) != {"DEFAULT_CHARACTER_SETS", "DEFAULT_COLLATIONS"}:
        raise Shape("charset maps")
    # CharacterSet.codec: either `if self.name == X: return Y ... return self.name` or `return {..}.get(self.name, self.name)`
    codec = find_func(find_class(tree, "CharacterSet"), "codec")
    special = {}
    body = [b for b in codec.body if not (isinstance(b, ast.Expr) and isinstance(b.value, ast.Constant))]
    last = body[-1]
    if not isinstance(last, ast.Return):
        raise Shape("codec: last statement")
    if ast.unparse(last.value) == "self.name":
        for b in body[:-1]:
            if not (isinstance(b, ast.If) and isinstance(b.test, ast.Compare) and ast.unparse(b.test.left) == "self.name"
                    and isinstance(b.test.ops[0], ast.Eq) and len(b.body) == 1 and isinstance(b.body[0], ast.Return) and not b.orelse):
                raise Shape("codec: if shape")
            special[b.test.comparators[0].value] = b.body[0].value.value
    elif (len(body) == 1 and isinstance(last.value, ast.Call) and isinstance(last.value.func, ast.Attribute) and last.value.func.attr == "get"
          and isinstance(last.value.func.value, ast.Dict) and [ast.unparse(a) for a in last.value.args] == ["self.name", "self.name"]):
        dct = last.value.func.value
        for k, v in zip(dct.keys, dct.values):
            special[k.value] = v.value
    else:
        raise Shape("codec: shape")
    for fn, want in (("decode", "return b.decode(self.codec)"), ("encode", "return s.encode(self.codec)")):
        f = find_func(find_class(tree, "CharacterSet"), fn)
        if ast.unparse(f.body[-1]) != want:
            raise Shape(f"CharacterSet.{fn}")
    return cs, co, maps, special


CHARSET_BODIES = [
    "charset.py:CharacterSet:codec", "charset.py:CharacterSet:decode", "charset.py:CharacterSet:encode", "charset.py:CharacterSet:default_collation",
    "charset.py:Collation:charset", "charset.py:Collation:codec",
    "connection.py:Connection:server_charset", "connection.py:Connection:client_charset", "connection.py:Connection:error",
    "connection.py:Connection:text_resultset", "connection.py:Connection:handle_init_db",
    "packets.py::parse_handshake_response_41", "packets.py::parse_com_change_user", "packets.py::parse_com_init_db",
    "packets.py::parse_com_field_list", "packets.py::make_error", "packets.py::make_handshake_v10", "packets.py::make_auth_switch_request",
    "packets.py::_read_param_value", "packets.py::parse_com_stmt_execute", "packets.py::_interpolate_params", "packets.py::_read_params",
    "packets.py::parse_com_query", "packets.py::parse_com_stmt_send_long_data",
    "connection.py:Connection:handle_stmt_prepare", "connection.py:Connection:handle_stmt_execute", "connection.py:Connection:handle_field_list",
    "prepared.py:PreparedStatement:*",
]


def facts_charset():
    import codecs
    cs, co, maps, special = charset_tables()
    out = []
    for key in CHARSET_BODIES:
        body_fact(key, out)
    out.append("(* (name, id, codec name, Python has that codec) *)")
    rows = []
    for name, i in cs:
        codec = special.get(name, name)
        try:
            codecs.lookup(codec)
            has = True
        except LookupError:
            has = False
        rows.append(f"  ({cps(name)}, {i}, {cps(codec)}, {str(has).lower()}) (* {name} -> {codec} *)")
    out.append("Definition charset_table : list (list N * N * list N * bool) := [\n" + ";\n".join(rows) + "].")
    out.append("Definition collation_table : list (list N * N) := [\n" + ";\n".join(f"  ({cps(n)}, {i})" for n, i in co) + "].")
    out.append("Definition collation_charset : list (list N * list N) := [\n" + ";\n".join(f"  ({cps(k)}, {cps(v)})" for k, v in maps["DEFAULT_CHARACTER_SETS"]) + "].")
    out.append("Definition default_collations : list (list N * list N) := [\n" + ";\n".join(f"  ({cps(k)}, {cps(v)})" for k, v in maps["DEFAULT_COLLATIONS"]) + "].")
    return out


# ----------------------------------------------------------------------------- variables.py / session.py (SET, hints)
VARS_BODIES = [
    "variables.py:Variables:get_schema", "variables.py:Variables:set", "variables.py:Variables:get", "variables.py:Variables:list",
    "variables.py::parse_timezone", "variables.py::=RE_TIMEZONE", "variables.py::_validate_character_set",
    "variables.py::_validate_client_character_set", "variables.py::_to_bool",
    "variables.py:SessionVariables:schema", "variables.py:GlobalVariables:schema",
    "session.py:Session:_set_var_middleware", "session.py:Session:_set_middleware", "session.py:Session:_set_variable",
    "session.py:Session:_set_charset", "session.py:Session:_set_names", "session.py:Session:_set_transaction",
    "session.py:Session:_replace_variables_middleware", "session.py:Session:timezone", "session.py:Session:handle_query",
    "intercept.py::setitem_kind", "intercept.py::value_to_expression", "intercept.py::expression_to_value",
]


def coq_default(node, ty):
    if isinstance(node, ast.Constant):
        v = node.value
        if v is None:
            return "VNone"
        if isinstance(v, bool):
            return f"(VBool {str(v).lower()})"
        if isinstance(v, int):
            return f"(VInt {v}%Z)"
        if isinstance(v, str):
            return f"(VStr {cps(v)})"
    if isinstance(node, ast.Attribute) and node.attr == "name" and isinstance(node.value, ast.Attribute) \
            and isinstance(node.value.value, ast.Name) and node.value.value.id in ("CharacterSet", "Collation"):
        return f"(VStr {cps(node.value.attr)})"
    raise Shape("default value shape: " + ast.unparse(node))


def facts_vars():
    out = []
    for key in VARS_BODIES:
        body_fact(key, out)
    tree = parse("variables.py")
    sv = [n for n in tree.body if isinstance(n, ast.AnnAssign) and ast.unparse(n.target) == "SYSTEM_VARIABLES"]
    if len(sv) != 1 or not isinstance(sv[0].value, ast.Dict):
        raise Shape("SYSTEM_VARIABLES not found")
    rows = []
    for k, v in zip(sv[0].value.keys, sv[0].value.values):
        if not (isinstance(k, ast.Constant) and isinstance(v, ast.Tuple) and len(v.elts) == 3 and isinstance(v.elts[0], ast.Name)
                and v.elts[0].id in ("int", "bool", "str") and isinstance(v.elts[2], ast.Constant) and isinstance(v.elts[2].value, bool)):
            raise Shape("SYSTEM_VARIABLES entry shape")
        ty = {"int": "TInt", "bool": "TBool", "str": "TStr"}[v.elts[0].id]
        rows.append(f"  ({cps(k.value)}, ({ty}, {coq_default(v.elts[1], ty)}, {str(v.elts[2].value).lower()})) (* {k.value} *)")
    out.append("Definition system_variables : schema_t := [\n" + ";\n".join(rows) + "].")
    # validators
    va = [n for n in tree.body if isinstance(n, (ast.Assign, ast.AnnAssign)) and ast.unparse(n.targets[0] if isinstance(n, ast.Assign) else n.target) == "VALIDATORS"]
    if len(va) != 1 or not isinstance(va[0].value, ast.Dict):
        raise Shape("VALIDATORS: assignments to variables the server depends on are not checked")
    vd = {k.value: ast.unparse(v) for k, v in zip(va[0].value.keys, va[0].value.values)}
    want = {"character_set_client": "_validate_client_character_set", "character_set_connection": "_validate_character_set",
            "character_set_results": "_validate_character_set", "time_zone": "parse_timezone"}
    out.append("Definition variables_validators_ok : bool := %s." % str(vd == want).lower())
    # TRANSACTION_CHARACTERISTICS
    it = parse("intercept.py")
    tc = [n for n in it.body if isinstance(n, ast.Assign) and ast.unparse(n.targets[0]) == "TRANSACTION_CHARACTERISTICS"]
    if len(tc) != 1 or not isinstance(tc[0].value, ast.Dict):
        raise Shape("TRANSACTION_CHARACTERISTICS")
    rows, names = [], []
    for k, v in zip(tc[0].value.keys, tc[0].value.values):
        if not (isinstance(k, ast.Constant) and isinstance(v, ast.Tuple) and len(v.elts) == 2):
            raise Shape("TRANSACTION_CHARACTERISTICS entry")
        names.append(k.value)
        rows.append(f"  ({cps(v.elts[0].value)}, {coq_default(v.elts[1], None)}) (* {k.value} *)")
    out.append("Definition tx_characteristics : list (str * value) := [\n" + ";\n".join(rows) + "].")
    out.append("Definition tx_names : list string := [" + "; ".join(coq_string(n) for n in names) + "]%string.")
    # the handshake announces variables.get('version'); force is used for external_user only
    conn = open(os.path.join(SRC, "connection.py")).read()
    out.append("Definition handshake_announces_version_variable : bool := %s." %
               str('server_version=self.session.variables.get("version")' in conn).lower())
    import re as _re
    forced = sorted(set(_re.findall(r'variables\.set\(\s*"([a-z_]+)"[^)]*force=True', conn)))
    every = []
    for f in os.listdir(SRC):
        if f.endswith(".py"):
            every += [(f, m) for m in _re.findall(r'force\s*=\s*True', open(os.path.join(SRC, f)).read())]
    out.append("Definition forced_assignments : list string := [" + "; ".join(coq_string(n) for n in forced) + "]%string.")
    out.append("Definition forced_assignment_sites : nat := %d." % len(every))
    return out


# ----------------------------------------------------------------------------- session.py routing (C13)
ROUTE_BODIES = [
    "session.py:Query:next", "session.py:Query:start", "session.py:Session:_parse",
    "session.py:Session:_static_query_middleware", "session.py:Session:_use_middleware", "session.py:Session:_kill_middleware",
    "session.py:Session:_begin_middleware", "session.py:Session:_commit_middleware", "session.py:Session:_rollback_middleware",
    "session.py:Session:_info_schema_middleware", "session.py:Session:use", "utils.py::find_tables", "utils.py::find_dbs",
    "connection.py:Connection:handle_query", "connection.py:Connection:query",
]


def facts_route():
    out = []
    for key in ROUTE_BODIES:
        body_fact(key, out)
    tree = parse("session.py")
    init = find_func(find_class(tree, "Session"), "__init__")
    mws = None
    for n in ast.walk(init):
        tgt = None
        if isinstance(n, ast.AnnAssign):
            tgt = n.target
        elif isinstance(n, ast.Assign) and len(n.targets) == 1:
            tgt = n.targets[0]
        if tgt is not None and ast.unparse(tgt) == "self.middlewares":
            if mws is not None or not isinstance(n.value, ast.List):
                raise Shape("self.middlewares: shape")
            mws = []
            for e in n.value.elts:
                if not (isinstance(e, ast.Attribute) and isinstance(e.value, ast.Name) and e.value.id == "self"):
                    raise Shape("self.middlewares: element shape")
                mws.append(e.attr)
    if not mws:
        raise Shape("self.middlewares not found")
    # nothing else may touch the list inside the library
    src = open(os.path.join(SRC, "session.py")).read()
    if src.count("self.middlewares") != 2:
        raise Shape("self.middlewares is used in %d places, expected the assignment and handle_query" % src.count("self.middlewares"))
    out.append("Definition session_middlewares : list string := [" + "; ".join(coq_string(m) for m in mws) + "]%string.")
    cst = parse("constants.py")
    info = [n for n in cst.body if isinstance(n, ast.Assign) and ast.unparse(n.targets[0]) == "INFO_SCHEMA"]
    if len(info) != 1 or not isinstance(info[0].value, ast.Dict):
        raise Shape("INFO_SCHEMA not found")
    dbs = [k.value for k in info[0].value.keys]
    if any(d != d.lower() for d in dbs):
        raise Shape("INFO_SCHEMA keys are compared with lower-cased names")
    out.append("Definition catalog_dbs : list (list N) := [" + "; ".join(cps(d) for d in dbs) + "].")
    return out


# ----------------------------------------------------------------------------- outlines
# Which functions, classes, methods and class-level names each module defines.  Body facts compare the functions the
# model was transcribed from; an ADDED method (an override in a subclass, a new helper a transcribed function now goes
# through) changes no compared body of its own class - the outline of the module does change.
OUTLINE_MODULES = ["auth.py", "charset.py", "connection.py", "control.py", "intercept.py", "packets.py", "prepared.py", "results.py",
                   "schema.py", "server.py", "session.py", "stream.py", "utils.py", "variables.py"]


def module_outline(fname):
    tree = parse(fname)
    out = []

    def visit(body, prefix):
        for n in body:
            if isinstance(n, (ast.FunctionDef, ast.AsyncFunctionDef)):
                out.append(prefix + n.name + "()")
            elif isinstance(n, ast.ClassDef):
                out.append(prefix + "class " + n.name + "(" + ", ".join(ast.unparse(b) for b in n.bases) + ")")
                visit(n.body, prefix + n.name + ".")
            elif isinstance(n, ast.Assign):
                for t in n.targets:
                    out.append(prefix + ast.unparse(t) + " =")
            elif isinstance(n, ast.AnnAssign):
                out.append(prefix + ast.unparse(n.target) + " =")
    visit(tree.body, "")
    return "\n".join(out)


def facts_outline():
    out = []
    exp = expected_bodies()
    for fname in OUTLINE_MODULES:
        key = fname + "::@outline"
        got = module_outline(fname)
        ok = got in exp.get(key, [])
        name = "outline_" + fname.split(".")[0] + "_ok"
        if not ok:
            want = set((exp.get(key) or [""])[0].splitlines())
            diff = sorted(set(got.splitlines()) ^ want)
            shown = "; ".join(diff)[:600].replace("*)", "* )").replace('"', "''")
            out.append(f"(* {fname}: definitions added / removed / renamed: {shown} *)")
        out.append(f"Definition {name} : bool := {'true' if ok else 'false'}.")
    return out


SECTIONS = [("stream", facts_stream), ("control", facts_control), ("packets", facts_packets), ("conn", facts_conn), ("shared", facts_shared), ("auth", facts_auth), ("results", facts_results), ("catalog", facts_catalog), ("charset", facts_charset), ("vars", facts_vars), ("route", facts_route), ("outline", facts_outline)]


IMPORTS = {
    "stream": "From MM Require Import Lib.Bytes Model.Wire.",
    "control": "From MM Require Import Lib.Bytes Model.ConnId.",
    "vars": "From MM Require Import Lib.Bytes Model.Vars.",
}


def generate_one(name, fn) -> str:
    lines = [
        "(* GENERATED by harness/translate.py from %s - do not edit *)" % SRC,
        "From Coq Require Import List NArith ZArith String.",
        IMPORTS.get(name, "From MM Require Import Lib.Bytes."),
        "Import ListNotations.",
        "Open Scope N_scope.",
        "",
    ]
    try:
        lines.extend(fn())
        lines.append(f"Definition translated_{name} : bool := true.")
    except Exception as e:  # fail closed
        reason = f"{type(e).__name__}: {e}".replace("*)", "* )").replace('"', "''")
        lines.append(f"(* TRANSLATOR FAILED for {name}: {reason} *)")
        lines.append(f"Definition translated_{name} : bool := translator_failed_for_{name}.")
    lines.append("")
    return "\n".join(lines)


def main():
    if sys.argv[1] == "--snapshot":
        exp = expected_bodies() if os.path.exists(_EXPECTED_PATH) else {}
        for key in sys.argv[2:]:
            exp[key] = [module_outline(key.split(":")[0])] if key.endswith("::@outline") else [current_body(key)]
            print("snapshot", key)
        with open(_EXPECTED_PATH, "w") as f:
            _json.dump(exp, f, indent=1, sort_keys=True)
        return
    outdir = sys.argv[1]
    os.makedirs(outdir, exist_ok=True)
    for name, fn in SECTIONS:
        out = os.path.join(outdir, "Facts" + name.capitalize() + ".v")
        text = generate_one(name, fn)
        old = None
        if os.path.exists(out):
            with open(out) as f:
                old = f.read()
        if old != text:
            with open(out, "w") as f:
                f.write(text)
            print(os.path.basename(out), "rewritten")


if __name__ == "__main__":
    main()
