"""Translator: /repo source  ->  coq/theories/Gen/Facts.v   (fail-closed).

Everything in the code that is data or skeleton is regenerated on every run: numeric constants with the
places they occur, enum tables, the system-variable schema, the ordered middleware list, the
try/except skeletons of the connection life cycle.  The theorems in Props/ are stated over these
definitions, so they are re-checked against what the code says now.

If a shape the translator expects is not found, the emitted Facts.v contains a definition that does
not type-check, preceded by a comment with the reason, so every property depending on it fails closed.

Constants and tables are read with `ast` from the source text (not by importing), skeletons likewise;
the enum tables are additionally cross-checked against the imported module by harness/core.py.
"""
from __future__ import annotations

import ast
import os
import sys

REPO = os.environ.get("VERIF_REPO", "/repo")
SRC = os.path.join(REPO, "mysql_mimic")


class Shape(Exception):
    pass


def parse(name):
    with open(os.path.join(SRC, name)) as f:
        return ast.parse(f.read(), filename=name)


def find_class(tree, name):
    for n in tree.body:
        if isinstance(n, ast.ClassDef) and n.name == name:
            return n
    raise Shape(f"class {name} not found")


def find_func(node, name):
    body = node.body
    for n in body:
        if isinstance(n, (ast.FunctionDef, ast.AsyncFunctionDef)) and n.name == name:
            return n
    raise Shape(f"function {name} not found")


def const_int(node):
    """Evaluate an integer constant expression (literals, **, <<, -, +, *, names resolved by caller)."""
    if isinstance(node, ast.Constant) and isinstance(node.value, int) and not isinstance(node.value, bool):
        return node.value
    if isinstance(node, ast.BinOp):
        l, r = const_int(node.left), const_int(node.right)
        if isinstance(node.op, ast.Pow):
            return l ** r
        if isinstance(node.op, ast.LShift):
            return l << r
        if isinstance(node.op, ast.Sub):
            return l - r
        if isinstance(node.op, ast.Add):
            return l + r
        if isinstance(node.op, ast.Mult):
            return l * r
    raise Shape(f"not an integer constant: {ast.dump(node)}")


def call_name(c):
    f = c.func
    parts = []
    while isinstance(f, ast.Attribute):
        parts.append(f.attr)
        f = f.value
    if isinstance(f, ast.Name):
        parts.append(f.id)
    return ".".join(reversed(parts))


def coq_string(s):
    return '"' + s.replace('"', '""') + '"'


def nlist(xs):
    return "[" + "; ".join(str(x) for x in xs) + "]"


# ----------------------------------------------------------------------------- stream.py
def facts_stream():
    tree = parse("stream.py")
    cls = find_class(tree, "MysqlStream")
    out = []
    # __init__: buffer_size default and seq(256)
    init = find_func(cls, "__init__")
    names = [a.arg for a in init.args.args]
    if "buffer_size" not in names:
        raise Shape("MysqlStream.__init__ has no buffer_size parameter")
    default = init.args.defaults[names.index("buffer_size") - (len(names) - len(init.args.defaults))]
    out.append(f"Definition stream_buffer_size : N := {const_int(default)}.")
    seq_sizes = [
        const_int(n.args[0])
        for n in ast.walk(init)
        if isinstance(n, ast.Call) and call_name(n) == "seq" and n.args
    ]
    if len(seq_sizes) != 1:
        raise Shape("expected exactly one seq(<n>) in MysqlStream.__init__")
    out.append(f"Definition stream_seq_size : N := {seq_sizes[0]}.")

    # read(): header fetch method, masks, continuation test
    read = find_func(cls, "read")
    fetches = []
    for n in ast.walk(read):
        if isinstance(n, ast.Await) and isinstance(n.value, ast.Call):
            nm = call_name(n.value)
            if nm in ("self.reader.read", "self.reader.readexactly"):
                a = n.value.args
                if len(a) == 1 and isinstance(a[0], ast.Constant):
                    fetches.append((nm.rsplit(".", 1)[1], a[0].value))
    if len(fetches) != 1:
        raise Shape(f"expected exactly one constant-size header fetch in read(), found {fetches}")
    meth, size = fetches[0]
    out.append(f"Definition stream_header_size : N := {size}.")
    out.append(
        "Definition stream_header_read : hmode := "
        + ("Exactly" if meth == "readexactly" else "UpTo")
        + f".  (* await self.reader.{meth}({size}) *)"
    )
    # with readexactly, an EOF on a packet boundary must still be a clean close:
    if meth == "readexactly":
        handlers = [
            h for n in ast.walk(read) if isinstance(n, ast.Try) for h in n.handlers
            if h.type is not None and "IncompleteReadError" in ast.unparse(h.type)
        ]
        out.append(f"Definition stream_header_eof_handled : bool := {'true' if handlers else 'false'}.")
    else:
        out.append("Definition stream_header_eof_handled : bool := true.")
    masks = {}
    for n in ast.walk(read):
        if isinstance(n, ast.BinOp) and isinstance(n.op, ast.BitAnd):
            try:
                v = const_int(n.right)
            except Shape:
                continue
            masks.setdefault("and", []).append(v)
        if isinstance(n, ast.BinOp) and isinstance(n.op, ast.RShift):
            masks.setdefault("shr", []).append(const_int(n.right))
    if sorted(masks.get("and", [])) != sorted(set(masks.get("and", []))) or len(masks.get("and", [])) != 2 or len(masks.get("shr", [])) != 1:
        raise Shape(f"header decoding masks not recognised: {masks}")
    lo, hi = sorted(masks["and"])
    out.append(f"Definition stream_len_mask : N := {lo}.")
    out.append(f"Definition stream_seq_mask : N := {hi}.")
    out.append(f"Definition stream_seq_shift : N := {masks['shr'][0]}.")
    conts = []
    zero_returns = 0
    for n in ast.walk(read):
        if isinstance(n, ast.If) and isinstance(n.test, ast.Compare) and len(n.test.ops) == 1:
            t = n.test
            if isinstance(t.left, ast.Name) and t.left.id == "payload_length":
                try:
                    v = const_int(t.comparators[0])
                except Shape:
                    continue
                if isinstance(t.ops[0], ast.Lt) and any(isinstance(b, ast.Return) for b in n.body):
                    conts.append(v)
                if isinstance(t.ops[0], ast.Eq) and v == 0 and any(isinstance(b, ast.Return) for b in n.body):
                    zero_returns += 1
    if len(conts) != 1:
        raise Shape(f"read(): expected one `if payload_length < K: return`, found {conts}")
    out.append(f"Definition stream_read_cont : N := {conts[0]}.")

    # write(): the two slices and the continuation test
    write = find_func(cls, "write")
    uppers, lowers, cmps = [], [], []
    for n in ast.walk(write):
        if isinstance(n, ast.Subscript) and isinstance(n.slice, ast.Slice):
            sl = n.slice
            if sl.upper is not None and sl.lower is None:
                uppers.append(const_int(sl.upper))
            elif sl.lower is not None and sl.upper is None:
                lowers.append(const_int(sl.lower))
        if isinstance(n, ast.Compare) and len(n.ops) == 1 and isinstance(n.ops[0], ast.NotEq):
            try:
                cmps.append(const_int(n.comparators[0]))
            except Shape:
                pass
    if not (len(uppers) == len(lowers) == len(cmps) == 1):
        raise Shape(f"write(): slices/compare not recognised: {uppers} {lowers} {cmps}")
    out.append(f"Definition stream_write_take : N := {uppers[0]}.")
    out.append(f"Definition stream_write_drop : N := {lowers[0]}.")
    out.append(f"Definition stream_write_cont : N := {cmps[0]}.")
    # flush rule: `if drain or len(self._buffer) >= self._buffer_size`
    flush = [
        ast.unparse(n.test) for n in ast.walk(write) if isinstance(n, ast.If) and "_buffer_size" in ast.unparse(n.test)
    ]
    if flush != ["drain or len(self._buffer) >= self._buffer_size"]:
        raise Shape(f"write(): flush rule not recognised: {flush}")
    out.append("Definition stream_flush_rule_ge : bool := true.")

    # uint_3 / uint_1 in types.py
    ttree = parse("types.py")
    u3 = ast.unparse(find_func(ttree, "uint_3").body[-1])
    u1 = ast.unparse(find_func(ttree, "uint_1").body[-1])
    if u3 != "return struct.pack('<HB', i & 65535, i >> 16)" or u1 != "return struct.pack('<B', i)":
        raise Shape(f"uint_3/uint_1 changed: {u3!r} {u1!r}")
    out.append("Definition types_uint3_le : bool := true.")
    return out


SECTIONS = [("stream", facts_stream)]


def generate() -> str:
    lines = [
        "(* GENERATED by harness/translate.py from %s - do not edit *)" % SRC,
        "From Coq Require Import List NArith ZArith String.",
        "From MM Require Import Lib.Bytes Model.Wire.",
        "Import ListNotations.",
        "Open Scope N_scope.",
        "",
    ]
    for name, fn in SECTIONS:
        lines.append(f"(* ---- {name} ---- *)")
        try:
            lines.extend(fn())
            lines.append(f"Definition translated_{name} : bool := true.")
        except Exception as e:  # fail closed
            reason = f"{type(e).__name__}: {e}".replace("*)", "* )")
            lines.append(f"(* TRANSLATOR FAILED for {name}: {reason} *)")
            lines.append(f"Definition translated_{name} : bool := translator_failed_for_{name}.")
        lines.append("")
    return "\n".join(lines)


def main():
    out = sys.argv[1]
    text = generate()
    old = None
    if os.path.exists(out):
        with open(out) as f:
            old = f.read()
    if old != text:
        os.makedirs(os.path.dirname(out), exist_ok=True)
        with open(out, "w") as f:
            f.write(text)
        print("Facts.v rewritten")
    else:
        print("Facts.v unchanged")


if __name__ == "__main__":
    main()
