"""Server-to-client packets byte for byte: packets.make_* against Model/Packets.v, and the Coq reference decoders applied
to the implementation's bytes.  Used by C03 (well-formed responses), C16 (COM_FIELD_LIST definitions), C18 (greeting)."""
from __future__ import annotations

import core

from mysql_mimic import packets
from mysql_mimic.charset import CharacterSet
from mysql_mimic.errors import ErrorCode, get_sqlstate
from mysql_mimic.types import Capabilities, ColumnType, ServerStatus, ColumnDefinition

HEADER = """From Coq Require Import List NArith Bool.
From MM Require Import Lib.Bytes Model.Packets.
Import ListNotations. Open Scope N_scope.
Definition C41 := mk_caps true true true false.
Definition beq (a b : bytes) : bool := if list_eq_dec N.eq_dec a b then true else false.
Definition chk_ok (b : bytes) (eof : bool) (aff last status warn : N) :=
  (beq b (enc_ok C41 eof aff last status warn),
   match dec_ok b with Some (e, a, l, s, w, []) => Bool.eqb e eof && (a =? aff) && (l =? last) && (s =? status) && (w =? warn) | _ => false end).
Definition chk_eof (b : bytes) (warn status : N) :=
  (beq b (enc_eof C41 warn status), match dec_eof b with Some (w, s) => (w =? warn) && (s =? status) | None => false end).
Definition chk_err (b : bytes) (code : N) (sqlstate msg : bytes) :=
  (beq b (enc_err C41 code sqlstate msg),
   match dec_err b with Some (c, st, m) => (c =? code) && (if list_eq_dec N.eq_dec st sqlstate then true else false) && (if list_eq_dec N.eq_dec m msg then true else false) | None => false end).
Definition chk_coldef (b : bytes) (cd : coldef) (fl : option (option bytes)) :=
  (beq b (enc_coldef cd fl),
   match dec_coldef b with
   | Some (d, rest) => (if list_eq_dec N.eq_dec (cd_name d) (cd_name cd) then true else false) && (cd_charset d =? cd_charset cd) &&
                       (cd_type d =? cd_type cd) && (cd_length d =? cd_length cd) && (cd_flags d =? cd_flags cd) &&
                       (if list_eq_dec N.eq_dec (cd_table d) (cd_table cd) then true else false) &&
                       match fl with
                       | None => match rest with [] => true | _ => false end
                       | Some dv => match read_str_len rest with      (* a client reads ONE length-encoded string: the default *)
                                    | Some (v, []) => if list_eq_dec N.eq_dec v (match dv with Some x => x | None => [] end) then true else false
                                    | _ => false
                                    end
                       end
   | None => false end).
Definition chk_hs (b : bytes) (plug : bool) (capsw cs : N) (version : bytes) (cid : N) (auth : bytes) (status : N) (plugin : bytes) :=
  (beq b (enc_handshake (mk_caps true true plug false) capsw cs version cid auth status plugin),
   match dec_handshake b with Some (v, c, p1, w, ch, st, al, _) => (c =? cid) && (w =? capsw) && (ch =? cs) && (st =? status) &&
                                                                      (if list_eq_dec N.eq_dec v version then true else false)
   | None => false end).
"""

L = core.coq_N_list


def sumbool(x):
    """Coq prints `left _` / `right _` for sumbool values"""
    return isinstance(x, tuple) and x[0] == "left" or x == "left"


def cases(rng, n):
    base = Capabilities.CLIENT_PROTOCOL_41 | Capabilities.CLIENT_TRANSACTIONS | Capabilities.CLIENT_PLUGIN_AUTH
    out = []
    big = [0, 1, 250, 251, 252, 65535, 65536, 2 ** 24 - 1, 2 ** 24, 2 ** 40, 2 ** 64 - 1]
    for _ in range(n):
        aff, last = rng.choice(big), rng.choice(big)
        st = rng.choice([0, 2, 0x0002 | 0x0040, 0xFFFF & ~0x80])
        fl = rng.choice([0, 0x0040, 0x0080, 0x0008])
        warn = rng.choice([0, 1, 65535])
        eof = rng.random() < 0.5
        b = packets.make_ok(base, ServerStatus(st), eof=eof, affected_rows=aff, last_insert_id=last, warnings=warn, flags=fl)
        out.append(("ok", b, f"chk_ok {L(b)} {core.coq_bool(eof)} {aff} {last} {st | fl} {warn}"))
        b = packets.make_eof(base, ServerStatus(st), warnings=warn, flags=fl)
        out.append(("eof", b, f"chk_eof {L(b)} {warn} {st | fl}"))
        code = rng.choice(list(ErrorCode))
        msg = rng.choice(["", "boom", "Unknown column 'x'", "ünï ✓", "a" * 600])
        b = packets.make_error(base, CharacterSet.utf8mb4, msg=msg, code=code)
        out.append(("err", b, f"chk_err {L(b)} {int(code)} {L(get_sqlstate(code))} {L(msg.encode('utf8'))}"))
        name = rng.choice(["a", "", "col ü", "x" * 300])
        table = rng.choice([None, "t", "tbl"])
        cs = rng.choice([CharacterSet.utf8mb4, CharacterSet.latin1, CharacterSet.utf16, CharacterSet.binary])
        ty = rng.choice(list(ColumnType))
        ln = rng.choice([0, 256, 2 ** 32 - 1])
        flags = rng.choice([0, 1, 4096 | 1])
        fieldlist = rng.choice([None, (None,), ("dflt",), ("",), ("gr\u00f6\u00dfe",), ("x" * 300,)])
        kw = dict(server_charset=CharacterSet.utf8mb4, table=table, name=name, character_set=cs, column_length=ln, column_type=ty,
                  flags=ColumnDefinition(flags))
        if fieldlist is not None:
            kw.update(is_com_field_list=True, default=fieldlist[0])
        b = packets.make_column_definition_41(**kw)
        t = (table or "").encode("utf8")
        nm = name.encode("utf8")
        cd = f"(mk_coldef [] {L(t)} {L(t)} {L(nm)} {L(nm)} {int(cs)} {ln} {int(ty)} {flags} 0)"
        flt = "None" if fieldlist is None else ("(Some None)" if fieldlist[0] is None else f"(Some (Some {L(fieldlist[0].encode('utf8'))}))")
        out.append(("coldef" if fieldlist is None else "coldef-fieldlist", b, f"chk_coldef {L(b)} {cd} {flt}"))
        plug = rng.random() < 0.8
        caps = (base if plug else base & ~Capabilities.CLIENT_PLUGIN_AUTH) | rng.choice([0, Capabilities.CLIENT_SSL, Capabilities.CLIENT_DEPRECATE_EOF])
        cid = rng.choice([1, 65536 + 7, 2 ** 32 - 1])
        auth = bytes(rng.randrange(1, 256) for _ in range(20))
        ver = rng.choice(["8.0.29", "5.7.1-mimic"])
        b = packets.make_handshake_v10(capabilities=Capabilities(caps), server_charset=CharacterSet.utf8mb4, server_version=ver, connection_id=cid,
                                       auth_data=auth, status_flags=ServerStatus(st), auth_plugin_name="mysql_native_password")
        out.append(("handshake", b, f"chk_hs {L(b)} {core.coq_bool(plug)} {int(caps)} {int(CharacterSet.utf8mb4)} {L(ver.encode())} {cid} {L(auth)} {st} "
                                    f"{L(b'mysql_native_password')}"))
    return out


def run(ctx, name, n, only=None):
    """returns (number of cases, list of disagreements / decode failures, cases per kind); only: restrict to these kinds"""
    cs = [c for c in cases(ctx.rng, n) if only is None or c[0] in only]
    res = core.run_coq_terms(ctx, name, HEADER, [t for _, _, t in cs], shard=120)
    bad = []
    kinds = {}
    for (kind, b, term), r in zip(cs, res):
        kinds[kind] = kinds.get(kind, 0) + 1
        same, decodes = r
        if same is not True:
            bad.append(dict(kind=kind + "-bytes", packet=list(b[:80]), term=term[:200]))
        elif decodes is not True:
            bad.append(dict(kind=kind + "-decode", packet=list(b[:80]), term=term[:200]))
    return len(cs), bad, kinds
