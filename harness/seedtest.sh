#!/bin/bash
# usage: seedtest.sh <patch> <check ids...>   applies the patch to /repo, runs the checks, reverts
P=$1; shift
cd /repo && git status --short | grep -q . && { echo "repo dirty"; exit 2; }
git -C /repo apply "$P" || { echo "patch does not apply"; exit 2; }
for c in "$@"; do
  (cd /verif && timeout 1500 ./check $c quick 2>&1 | grep -v conda | grep -E "VIOLATION|KNOWN|quick:" | cut -c1-220)
done
git -C /repo checkout -- . 
git -C /repo status --short | head -3
# evidence written while /repo was patched does not describe the unchanged tree: put the committed files back
git -C /verif checkout -- evidence 2>/dev/null
