"""Common machinery of every check: build + proof audit, Coq case evaluation, evidence, verdicts."""
from __future__ import annotations

import fcntl
import glob
import hashlib
import json
import os
import random
import re
import shutil
import subprocess
import sys
import time

VERIF = os.path.dirname(os.path.dirname(os.path.abspath(__file__)))
REPO = os.environ.get("VERIF_REPO", "/repo")
COQ = os.path.join(VERIF, "coq")
THEORIES = os.path.join(COQ, "theories")
FACTS = os.path.join(THEORIES, "Gen")
PY = "/venv/bin/python"
NPROC = os.cpu_count() or 8

os.environ["PYTHONHASHSEED"] = os.environ.get("PYTHONHASHSEED", "0")
if REPO not in sys.path:
    sys.path.insert(0, REPO)

COQ_HEADER_FLAGS = "-arg -w -arg -notation-overridden,-deprecated-hint-without-locality,-deprecated-syntactic-definition,-deprecated-instance-without-locality"

TRUSTED_BASE = [
    "Coq 8.16.1 kernel (coqc; vm_compute used, native_compute not used)",
    "harness/translate.py (ast translator producing Gen/Facts.v, fail-closed)",
    "correspondence harness (harness/*.py): drives /repo in-process and evaluates the Gallina model with coqc/vm_compute",
]

ALLOWED_AXIOMS: set[str] = set()  # none needed so far; anything else reported by Print Assumptions fails the check


def sh(cmd, timeout=None, cwd=None, env=None):
    p = subprocess.run(cmd, shell=isinstance(cmd, str), cwd=cwd, env=env, timeout=timeout,
                       stdout=subprocess.PIPE, stderr=subprocess.STDOUT, text=True, errors="replace")
    return p.returncode, p.stdout


class Ctx:
    def __init__(self, prop, tier, seed):
        self.prop = prop
        self.tier = tier
        self.seed = seed
        self.rng = random.Random(seed)
        self.t0 = time.time()
        self.work = os.path.join(VERIF, ".work", f"{prop}-{os.getpid()}")
        shutil.rmtree(self.work, ignore_errors=True)
        os.makedirs(self.work, exist_ok=True)
        self.violations = []  # (replay_path, note)
        self.known = []
        self.coverage = {}
        self.assumptions = []
        self.proof = None
        self.evals = 0

    def cleanup(self):
        shutil.rmtree(self.work, ignore_errors=True)

    @property
    def quick(self):
        return self.tier == "quick"


# ------------------------------------------------------------------------------------ build
def all_v_files():
    fs = sorted(glob.glob(os.path.join(THEORIES, "**", "*.v"), recursive=True))
    return [os.path.relpath(f, COQ) for f in fs]


def regenerate_facts():
    rc, out = sh([PY, os.path.join(VERIF, "harness", "translate.py"), FACTS],
                 env=dict(os.environ, VERIF_REPO=REPO))
    if rc != 0:
        raise RuntimeError("translator crashed:\n" + out)
    return out.strip()


def build(targets=None, timeout=1500):
    """Regenerate Facts.v from REPO, then (re)build the Coq development.  Returns (ok, log, failed_files)."""
    os.makedirs(os.path.join(VERIF, ".work"), exist_ok=True)
    with open(os.path.join(VERIF, ".lock"), "w") as lk:
        fcntl.flock(lk, fcntl.LOCK_EX)
        regenerate_facts()
        files = all_v_files()
        proj = "-Q theories MM\n" + COQ_HEADER_FLAGS + "\n" + "\n".join(sorted(files)) + "\n"
        pj = os.path.join(COQ, "_CoqProject")
        old = open(pj).read() if os.path.exists(pj) else None
        if old != proj or not os.path.exists(os.path.join(COQ, "Makefile")):
            with open(pj, "w") as f:
                f.write(proj)
            rc, out = sh("coq_makefile -f _CoqProject -o Makefile", cwd=COQ, timeout=120)
            if rc != 0:
                return False, out, ["coq_makefile"]
        tg = " ".join(f"theories/{t}.vo" for t in targets) if targets else ""
        rc, out = sh(f"timeout {timeout} make -k -j{NPROC} {tg}", cwd=COQ, timeout=timeout + 60)
        with open(os.path.join(COQ, "build.log"), "w") as f:
            f.write(out)
        failed = sorted(set(re.findall(r'File "\./(theories/[^"]+\.v)", line \d+, characters [\d-]+:\s*\nError', out)))
        errs = re.findall(r'(File "\./theories/[^"]+\.v", line \d+, characters [\d-]+:\s*\nError:[^\n]*(?:\n[^\n]*){0,6})', out)
        return rc == 0, out, failed, errs


REQ_RE = re.compile(r"From MM Require (?:Import |Export )?((?:[A-Za-z0-9_]+(?:\.[A-Za-z0-9_]+)*\s+)*[A-Za-z0-9_]+(?:\.[A-Za-z0-9_]+)*)\.(?=\s|$)")


def deps_of(vfile, seen=None):
    """Transitive closure of `From MM Require ... X.Y` over theories/ (textual)."""
    seen = seen if seen is not None else set()
    if vfile in seen:
        return seen
    seen.add(vfile)
    try:
        src = open(os.path.join(THEORIES, vfile)).read()
    except FileNotFoundError:
        return seen
    for m in REQ_RE.finditer(src):
        for mod in m.group(1).split():
            deps_of(mod.replace(".", "/") + ".v", seen)
    return seen


STMT_RE = re.compile(r"^\s*(?:Local |Global )?(Theorem|Lemma|Corollary|Example|Fact|Proposition|Remark)\s+([A-Za-z0-9_']+)", re.M)


def audit_sources():
    """No Admitted / admit / Axiom / Parameter / ... anywhere in the development."""
    bad = []
    pat = re.compile(r"\b(Admitted|admit|Axiom|Axioms|Parameter|Parameters|Conjecture|Admit Obligations|bypass_check|Unset Guard Checking|Unset Positivity Checking|Unset Universe Checking|type-in-type|impredicative-set)\b")
    for f in all_v_files():
        src = open(os.path.join(COQ, f)).read()
        src_nc = re.sub(r"\(\*.*?\*\)", "", src, flags=re.S)
        for m in pat.finditer(src_nc):
            bad.append((f, m.group(1)))
        # Variable/Hypothesis outside a section
        depth = 0
        for line in src_nc.splitlines():
            s = line.strip()
            if re.match(r"Section\s+\w+", s):
                depth += 1
            elif re.match(r"End\s+\w+", s) and depth > 0:
                depth -= 1
            elif re.match(r"(Variable|Variables|Hypothesis|Hypotheses|Context)\b", s) and depth == 0:
                bad.append((f, "top-level " + s.split()[0]))
    return bad


def header_modules(header):
    mods = []
    for m in REQ_RE.finditer(header):
        for mod in m.group(1).split():
            mods.append(mod.replace(".", "/"))
    return mods


def realsock(ctx, scenarios):
    """harness/realsock.py in its own interpreter (real event loop, loopback sockets): {scenario: 'ok' | what went wrong}"""
    import json as _json
    try:
        out = subprocess.run([PY, os.path.join(VERIF, "harness", "realsock.py")] + list(scenarios), stdout=subprocess.PIPE, stderr=subprocess.DEVNULL,
                             timeout=240, text=True, env=dict(os.environ, VERIF_REPO=REPO)).stdout
        line = [l for l in out.splitlines() if l.startswith("@@")]
        res = _json.loads(line[-1][2:]) if line else {"/".join(scenarios): "the probe produced no result"}
    except Exception as e:  # noqa
        res = {"/".join(scenarios): f"the probe failed: {type(e).__name__}"}
    ctx.evals += len(res)
    return res


def realsock_witness(res):
    bad = {k: v for k, v in res.items() if v != "ok"}
    return dict(kind="real-socket", scenario=sorted(bad)[0], problem=bad[sorted(bad)[0]], all_failing={k: v[:160] for k, v in bad.items()}) if bad else None


def check_proofs(ctx: Ctx, props_file, extra_targets=(), headers=()):
    """Step 1 of every check.  Sets ctx.proof = dict(ok, theorems, axioms, failed, errors, obligations).
    `headers`: the Coq headers of the case files of this check; the modules they import are built too."""
    targets = [props_file] + list(extra_targets)
    for h in headers:
        for m in header_modules(h):
            if m not in targets:
                targets.append(m)
    ok, log, failed, errs = build(targets)
    vrel = props_file + ".v"
    cone = deps_of(vrel)
    names = []
    nob = 0
    for f in sorted(cone):
        try:
            src = open(os.path.join(THEORIES, f)).read()
        except FileNotFoundError:
            continue
        src = re.sub(r"\(\*.*?\*\)", "", src, flags=re.S)
        found = STMT_RE.findall(src)
        nob += len(found)
        if f == vrel:
            names = [n for _, n in found]
    res = dict(ok=ok, failed=failed, errors=errs, obligations=nob, theorems=names, axioms={}, cone=sorted(cone))
    bad = audit_sources()
    if bad:
        res["ok"] = False
        res["errors"] = res["errors"] + [f"forbidden construct {w} in {f}" for f, w in bad]
    if ok:
        # re-check the property theorems' assumptions with a fresh coqc run
        mod = "MM." + props_file.replace("/", ".")
        audit = os.path.join(ctx.work, "Audit.v")
        with open(audit, "w") as f:
            f.write(f"From MM Require Import {props_file.replace('/', '.')}.\n")
            for n in names:
                f.write(f'Goal True. idtac "@@ {n}". exact I. Qed.\nPrint Assumptions {n}.\n')
        rc, out = sh(f"timeout 600 coqc -Q {THEORIES} MM {audit}", cwd=ctx.work, timeout=660)
        if rc != 0:
            res["ok"] = False
            res["errors"].append("Print Assumptions run failed: " + out[-2000:])
        else:
            blocks = out.split("@@ ")[1:]
            for b in blocks:
                name, _, rest = b.partition("\n")
                name = name.strip()
                if "Closed under the global context" in rest:
                    res["axioms"][name] = []
                else:
                    ax = re.findall(r"^([A-Za-z0-9_.']+)\s*:", rest, flags=re.M)
                    res["axioms"][name] = ax
                    notallowed = [a for a in ax if a not in ALLOWED_AXIOMS]
                    if notallowed:
                        res["ok"] = False
                        res["errors"].append(f"{name} depends on axioms not in the trusted base: {notallowed}")
            if set(res["axioms"]) != set(names):
                res["ok"] = False
                res["errors"].append("Print Assumptions output incomplete")
    res["discharged"] = nob if res["ok"] else max(0, nob - max(1, len(res["failed"])))
    ctx.proof = res
    return res


def coqchk(ctx: Ctx, props_file):
    mod = "MM." + props_file.replace("/", ".")
    rc, out = sh(f"timeout 1500 coqchk -silent -o -Q {THEORIES} MM {mod}", cwd=COQ, timeout=1560)
    tail = out[-3000:]
    ctx.coverage["coqchk"] = dict(rc=rc, tail=tail.splitlines()[-25:])
    return rc == 0, out


# ------------------------------------------------------------------------------------ Coq values
def coq_N_list(bs):
    return "[" + ";".join(str(int(b)) for b in bs) + "]"


def coq_list(items):
    return "[" + "; ".join(items) + "]"


def coq_bool(b):
    return "true" if b else "false"


def coq_string(s: str):
    return '"' + s.replace('"', '""') + '"'


def coq_option(x):
    return "None" if x is None else f"(Some {x})"


_TOK = re.compile(r'\s*(?:(\{\||\|\}|:=|[\[\]();,])|("(?:[^"]|"")*")|(-?\d+)(?:%[A-Za-z]+)?|([A-Za-z_][A-Za-z0-9_\'.]*)|(%[A-Za-z]+)|(-))')


def parse_coq(text):
    """Parse a printed Coq value made of numbers, lists, tuples, constructor applications, records, strings."""
    toks = []
    pos = 0
    text = text.strip()
    while pos < len(text):
        m = _TOK.match(text, pos)
        if not m or m.end() == pos:
            raise ValueError("cannot tokenise at: " + text[pos:pos + 40])
        pos = m.end()
        if m.group(1):
            toks.append(("p", m.group(1)))
        elif m.group(2):
            toks.append(("s", m.group(2)[1:-1].replace('""', '"')))
        elif m.group(3):
            toks.append(("n", int(m.group(3))))
        elif m.group(4):
            toks.append(("i", m.group(4)))
        elif m.group(6):
            toks.append(("p", "-"))
        # scope suffix tokens (group 5) are dropped
    i = 0

    def atom():
        nonlocal i
        k, v = toks[i]
        if k == "n":
            i += 1
            return v
        if k == "s":
            i += 1
            return ("str", v)
        if k == "i":
            i += 1
            if v == "true":
                return True
            if v == "false":
                return False
            return v
        if v == "-":
            i += 1
            x = atom()
            return -x
        if v == "[":
            i += 1
            out = []
            if toks[i] == ("p", "]"):
                i += 1
                return out
            while True:
                out.append(expr())
                if toks[i] == ("p", ";"):
                    i += 1
                    continue
                assert toks[i] == ("p", "]"), toks[i]
                i += 1
                return out
        if v == "(":
            i += 1
            first = expr()
            if toks[i] == ("p", ","):
                items = [first]
                while toks[i] == ("p", ","):
                    i += 1
                    items.append(expr())
                assert toks[i] == ("p", ")")
                i += 1
                return tuple(items)
            assert toks[i] == ("p", ")"), toks[i:i + 3]
            i += 1
            return first
        if v == "{|":
            i += 1
            d = {}
            while toks[i] != ("p", "|}"):
                name = toks[i][1]
                i += 1
                assert toks[i] == ("p", ":=")
                i += 1
                d[name] = expr()
                if toks[i] == ("p", ";"):
                    i += 1
            i += 1
            return d
        raise ValueError(f"unexpected token {toks[i]}")

    def expr():
        nonlocal i
        head = atom()
        if isinstance(head, str):
            args = []
            while i < len(toks) and (toks[i][0] in ("n", "s", "i") or toks[i] in (("p", "["), ("p", "("), ("p", "{|"))):
                args.append(atom())
            if args:
                return (head, *args)
        return head

    v = expr()
    if i != len(toks):
        raise ValueError(f"trailing tokens: {toks[i:i + 5]}")
    return v


def run_coq_terms(ctx: Ctx, name, header, terms, shard=300, timeout=900):
    """Evaluate each Coq term (all of one type) with vm_compute; returns the parsed values in order."""
    if not terms:
        return []
    files = []
    for k in range(0, len(terms), shard):
        path = os.path.join(ctx.work, f"{name}_{k // shard}.v")
        with open(path, "w") as f:
            f.write(header + "\nSet Printing Depth 100000000.\nSet Printing Width 1000000000.\n")
            for j, t in enumerate(terms[k:k + shard]):
                f.write(f'Goal True. idtac "@@{k + j}". exact I. Qed.\nEval vm_compute in ({t}).\n')
        files.append(path)
    procs = []
    results = {}
    running = []

    def reap(p, path):
        out, _ = p.communicate()
        if p.returncode != 0:
            raise RuntimeError(f"coqc failed on {path}:\n{out[-3000:]}")
        for b in out.split("@@")[1:]:
            idx, _, rest = b.partition("\n")
            m = re.search(r"=\s*(.*)\n\s*:\s", rest, flags=re.S)
            if not m:
                raise RuntimeError("cannot parse Coq output: " + rest[:500])
            results[int(idx)] = parse_coq(m.group(1))

    for path in files:
        while len(running) >= NPROC:
            p, pa = running.pop(0)
            reap(p, pa)
        p = subprocess.Popen(f"ulimit -s unlimited 2>/dev/null; timeout {timeout} coqc -Q {THEORIES} MM {path}",
                             shell=True, cwd=ctx.work, stdout=subprocess.PIPE, stderr=subprocess.STDOUT, text=True)
        running.append((p, path))
    for p, pa in running:
        reap(p, pa)
    ctx.evals += len(terms)
    return [results[i] for i in range(len(terms))]


# ------------------------------------------------------------------------------------ verdicts
def load_known():
    p = os.path.join(VERIF, "known_findings.json")
    if not os.path.exists(p):
        return []
    return json.load(open(p)).get("findings", [])


def known_open(prop, key):
    for f in load_known():
        if f.get("property") == prop and f.get("status") == "open" and f.get("key") == key:
            return f
    return None


def report_violation(ctx: Ctx, what, replay: dict, key=None, no_input=False):
    """Record a violation (or a KNOWN-FINDING if `key` matches an open entry of known_findings.json)."""
    if key is not None:
        kf = known_open(ctx.prop, key)
        if kf is not None:
            if key not in [k for k, _ in ctx.known]:
                ctx.known.append((key, kf.get("what", what)))
                print(f"KNOWN-FINDING: property={ctx.prop} {kf.get('what', what)}", flush=True)
            return
    os.makedirs(os.path.join(VERIF, "replays"), exist_ok=True)
    body = dict(property=ctx.prop, what=what, seed=ctx.seed, tier=ctx.tier, **replay)
    h = hashlib.sha1(json.dumps(body, sort_keys=True, default=repr).encode()).hexdigest()[:12]
    path = os.path.join(VERIF, "replays", f"{ctx.prop}-{h}.json")
    with open(path, "w") as f:
        json.dump(body, f, indent=1, default=repr)
    ctx.violations.append((path, what))
    suffix = " no-failing-input-found" if no_input else ""
    print(f"VIOLATION property={ctx.prop} replay={path}{suffix}", flush=True)


def write_evidence(ctx: Ctx, rule, samples, distinct, extra=None, assumptions=None, checker_cmd=None):
    if getattr(ctx, "replaying", None) is not None:
        return          # a replay re-runs one recorded run to see whether its violation is still there: it describes no coverage
    pr = ctx.proof or dict(obligations=0, discharged=0, axioms={}, theorems=[])
    cov = dict(
        obligations=pr["obligations"],
        discharged=pr["discharged"],
        checker_cmd=checker_cmd or f"make -C coq theories/Props/{ctx.prop}.vo && coqc Audit.v (Print Assumptions per theorem)",
        trusted_base=TRUSTED_BASE + [f"axioms reported by Print Assumptions: {sorted({a for v in pr['axioms'].values() for a in v}) or 'none (Closed under the global context)'}"],
        theorems=pr.get("theorems", []),
        evaluations=max(1, ctx.evals),
        distinct_nontrivial=distinct,
        rule=rule,
        samples=samples[:8] if samples else ["(none)"],
        traces_validated_against_impl=ctx.evals,
        proof_errors=pr.get("errors", [])[:5],
        known_findings=[w for _, w in ctx.known],
    )
    cov.update(ctx.coverage)
    if extra:
        cov.update(extra)
    ev = dict(
        property_id=ctx.prop,
        tier=ctx.tier,
        seed=ctx.seed,
        level="proof",
        coverage=cov,
        assumptions=assumptions or [],
        wall_s=round(time.time() - ctx.t0, 2),
        violations=len(ctx.violations),
    )
    os.makedirs(os.path.join(VERIF, "evidence"), exist_ok=True)
    with open(os.path.join(VERIF, "evidence", f"{ctx.prop}.json"), "w") as f:
        json.dump(ev, f, indent=1, default=repr)
    return ev


def proof_failure_summary(ctx):
    pr = ctx.proof
    return dict(broken=pr["failed"], errors=[e[:600] for e in pr["errors"][:4]])
