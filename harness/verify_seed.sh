#!/bin/bash
# usage: verify_seed.sh <ID> <worktree>   -> confirms demo fails with patch / passes without, and the pinned suite still passes
ID=$1; WT=$2; low=$(echo $ID | tr 'A-Z' 'a-z')
cd $WT || exit 2
git checkout -q -- mysql_mimic; git apply patch.diff || { echo "$ID: patch does not apply"; exit 2; }
PYTHONPATH=$WT timeout 300 /venv/bin/python demo_$low.py > /tmp/seed_${ID}_with.log 2>&1; A=$?
git checkout -q -- mysql_mimic
PYTHONPATH=$WT timeout 300 /venv/bin/python demo_$low.py > /tmp/seed_${ID}_without.log 2>&1; B=$?
git apply patch.diff
OUT=/tmp/seed_${ID}_junit.xml
unshare -n sh -c "ip link set lo up; cd $WT && PYTHONPATH=$WT /venv/bin/python -m pytest -q -p no:cacheprovider --timeout=900 --continue-on-collection-errors --junitxml=$OUT tests" > /tmp/seed_${ID}_pytest.log 2>&1
/venv/bin/python - <<PY
import json, xml.etree.ElementTree as ET
base=set(json.load(open("/root/.vp/BASELINE.json"))["stable_pass"])
passed=set()
for tc in ET.parse("$OUT").getroot().iter("testcase"):
    if not any(ch.tag in ("failure","error","skipped") for ch in tc):
        passed.add(f"{tc.get('classname')}::{tc.get('name')}")
missing=sorted(base-passed)
print("$ID demo_with_patch_exit=$A demo_without_patch_exit=$B baseline_missing=%d" % len(missing), missing[:3])
PY
