"""Client side of the MySQL protocol, written from the protocol documentation, independent of mysql_mimic.

Used to build valid client packets and as the strict reference decoder of what the server sends
(hunt oracle / cross-check; never a proof)."""
from __future__ import annotations

import hashlib
import struct

MAXP = 0xFFFFFF

# capability bits (protocol documentation)
CLIENT_LONG_PASSWORD = 1
CLIENT_CONNECT_WITH_DB = 8
CLIENT_PROTOCOL_41 = 1 << 9
CLIENT_SSL = 1 << 11
CLIENT_TRANSACTIONS = 1 << 13
CLIENT_SECURE_CONNECTION = 1 << 15
CLIENT_PLUGIN_AUTH = 1 << 19
CLIENT_CONNECT_ATTRS = 1 << 20
CLIENT_PLUGIN_AUTH_LENENC = 1 << 21
CLIENT_DEPRECATE_EOF = 1 << 24
CLIENT_OPTIONAL_RESULTSET_METADATA = 1 << 25
CLIENT_ZSTD = 1 << 26
CLIENT_QUERY_ATTRIBUTES = 1 << 27

BASE_CAPS = CLIENT_PROTOCOL_41 | CLIENT_SECURE_CONNECTION | CLIENT_PLUGIN_AUTH

COM_QUIT, COM_INIT_DB, COM_QUERY, COM_FIELD_LIST = 1, 2, 3, 4
COM_DEBUG, COM_PING, COM_CHANGE_USER = 0x0D, 0x0E, 0x11
COM_STMT_PREPARE, COM_STMT_EXECUTE, COM_STMT_SEND_LONG_DATA, COM_STMT_CLOSE, COM_STMT_RESET = 0x16, 0x17, 0x18, 0x19, 0x1A
COM_STMT_FETCH, COM_RESET_CONNECTION = 0x1C, 0x1F


def lenenc(i: int) -> bytes:
    if i < 251:
        return bytes([i])
    if i < 1 << 16:
        return b"\xfc" + struct.pack("<H", i)
    if i < 1 << 24:
        return b"\xfd" + struct.pack("<I", i)[:3]
    return b"\xfe" + struct.pack("<Q", i)


def lenstr(b: bytes) -> bytes:
    return lenenc(len(b)) + b


def frame(payload: bytes, seq: int = 0, maxp: int = MAXP) -> bytes:
    """Client-side framing of one payload starting at sequence id `seq`."""
    out = bytearray()
    while True:
        part, payload = payload[:maxp], payload[maxp:]
        out += struct.pack("<I", len(part))[:3] + bytes([seq & 0xFF]) + part
        seq += 1
        if len(part) != maxp:
            return bytes(out)


def split_raw(buf: bytes):
    """[(seq, payload)] of raw packets (no reassembly)."""
    out = []
    i = 0
    while i + 4 <= len(buf):
        l = int.from_bytes(buf[i:i + 3], "little")
        if i + 4 + l > len(buf):
            raise ValueError("truncated packet in server output")
        out.append((buf[i + 3], bytes(buf[i + 4:i + 4 + l])))
        i += 4 + l
    if i != len(buf):
        raise ValueError("trailing garbage in server output")
    return out


def split_stream(buf: bytes):
    """[(seq, payload)] of the COMPLETE raw packets at the front of a byte stream (a truncated tail is ignored)."""
    out = []
    i = 0
    while i + 4 <= len(buf):
        l = int.from_bytes(buf[i:i + 3], "little")
        if i + 4 + l > len(buf):
            break
        out.append((buf[i + 3], bytes(buf[i + 4:i + 4 + l])))
        i += 4 + l
    return out


def reassemble(buf: bytes, maxp: int = MAXP):
    """Standard client reassembly: [(first_seq, payload, n_packets)]; raises on non-consecutive ids inside a payload."""
    out = []
    cur = None
    for seq, p in split_raw(buf):
        if cur is None:
            cur = [seq, bytearray(), 0, seq]
        else:
            if seq != (cur[3] + 1) % 256:
                raise ValueError("sequence id jump inside a multi-packet payload")
            cur[3] = seq
        cur[1] += p
        cur[2] += 1
        if len(p) < maxp:
            out.append((cur[0], bytes(cur[1]), cur[2]))
            cur = None
    if cur is not None:
        raise ValueError("payload not terminated by a short packet")
    return out


def handshake_response(user=b"u", auth=b"", caps=BASE_CAPS, plugin=b"mysql_native_password", db=None,
                       attrs=None, charset=45, maxpkt=1 << 24, zstd=None) -> bytes:
    p = struct.pack("<IIB", caps, maxpkt, charset) + bytes(23) + user + b"\0"
    if caps & CLIENT_PLUGIN_AUTH_LENENC:
        p += lenstr(auth)
    else:
        p += bytes([len(auth)]) + auth
    if caps & CLIENT_CONNECT_WITH_DB:
        p += (db or b"") + b"\0"
    if caps & CLIENT_PLUGIN_AUTH:
        p += plugin + b"\0"
    if caps & CLIENT_CONNECT_ATTRS:
        body = b"".join(lenstr(k) + lenstr(v) for k, v in (attrs or []))
        p += lenenc(len(body)) + body
    if caps & CLIENT_ZSTD:
        p += bytes([zstd or 0])
    return p


def ssl_request(caps=BASE_CAPS | CLIENT_SSL, charset=45, maxpkt=1 << 24) -> bytes:
    return struct.pack("<IIB", caps, maxpkt, charset) + bytes(23)


def native_scramble(password: bytes, nonce: bytes) -> bytes:
    if not password:
        return b""
    h1 = hashlib.sha1(password).digest()
    h2 = hashlib.sha1(h1).digest()
    h3 = hashlib.sha1(nonce + h2).digest()
    return bytes(a ^ b for a, b in zip(h1, h3))


def parse_handshake_v10(p: bytes):
    """Reference decoder of the initial handshake: dict(version, thread_id, nonce, caps, charset, status, plugin)."""
    assert p[0] == 10, "protocol version"
    i = p.index(b"\0", 1)
    version = p[1:i]
    i += 1
    (thread_id,) = struct.unpack_from("<I", p, i)
    i += 4
    part1 = p[i:i + 8]
    i += 8
    assert p[i] == 0, "filler"
    i += 1
    (caps_lo, charset, status, caps_hi, alen) = struct.unpack_from("<HBHHB", p, i)
    i += 8
    i += 10
    caps = caps_lo | (caps_hi << 16)
    n2 = max(13, alen - 8)
    part2 = p[i:i + n2]
    i += n2
    plugin = None
    if caps & CLIENT_PLUGIN_AUTH:
        j = p.index(b"\0", i)
        plugin = p[i:j]
    nonce = (part1 + part2)[:alen].rstrip(b"\0") if alen else (part1 + part2).rstrip(b"\0")
    return dict(version=version, thread_id=thread_id, nonce=nonce, caps=caps, charset=charset, status=status,
                plugin=plugin, auth_len=alen)


def com_query(sql: bytes, caps=BASE_CAPS, attrs_block: bytes | None = None) -> bytes:
    if caps & CLIENT_QUERY_ATTRIBUTES:
        return bytes([COM_QUERY]) + (attrs_block if attrs_block is not None else b"\x00\x01") + sql
    return bytes([COM_QUERY]) + sql


def kind_of(payload: bytes, caps: int) -> str:
    """Coarse classification of a server packet (first packet of a response)."""
    if not payload:
        return "EMPTY"
    b = payload[0]
    if b == 0xFF:
        return "ERR"
    if b == 0x00:
        return "OK"
    if b == 0xFE and len(payload) < 9:
        return "EOF"
    if b == 0xFE:
        return "OKEOF"
    return "DATA"


def err_code(payload: bytes) -> int:
    return struct.unpack_from("<H", payload, 1)[0]
