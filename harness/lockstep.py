"""Lock-step correspondence between the real connection code and Model/Conn.v.

Traces are generated on the implementation side: after every injected event the driver reports what the
connection task is blocked on and everything written / called since the previous event; the finished
trace is replayed on the Coq model (vm_compute) and compared step by step."""
from __future__ import annotations

import re
import struct

import core
import client as cl
import impl

from mysql_mimic import packets, types
from mysql_mimic.auth import AuthPlugin, Forbidden, IdentityProvider, Success, User
from mysql_mimic.charset import CharacterSet
from mysql_mimic.constants import KillKind
from mysql_mimic.results import ResultColumn, ResultSet
from mysql_mimic.errors import MysqlError
from mysql_mimic.types import Capabilities, ColumnType

HEADER = """From Coq Require Import List NArith.
From MM Require Import Lib.Bytes Model.Conn.
Import ListNotations. Open Scope N_scope.
Definition sumctl (s : st) : N * N :=
  (match ctl_ s with
   | Susp WRead _ _ _ => 1 | Susp (WApp _) _ _ _ => 2 | Susp WDrain _ _ _ => 3 | Susp WSleep _ _ _ => 4
   | Susp WRow _ _ _ => 5 | Done => 6 | Stuck => 7 end, N.of_nat (closes s)).
Definition trace (B BATCH hs : N) (evs : list ev) :=
  let '(s0, o0) := boot B BATCH hs in
  let fix go s evs := match evs with
                      | [] => []
                      | e :: r => let '(s1, o) := step B BATCH s e in (o, sumctl s1, (pulled s1, handed s1)) :: go s1 r
                      end in
  ((o0, sumctl s0) :: nil, go s0 evs).
"""

CTL = {1: "read", 2: "app", 3: "drain", 4: "sleep", 5: "row", 6: "done", 7: "STUCK"}
MARK = re.compile(rb"R(\d+):")


# ----------------------------------------------------------------- scripted application objects
class ScriptPlugin(AuthPlugin):
    """plugin whose verdicts are scripted per connection by the harness"""

    def __init__(self, name, client_name, box):
        self.name = name
        self.client_plugin_name = client_name
        self.box = box  # dict: 'script' -> list of decisions consumed by the generator

    async def auth(self, auth_info=None):
        if not auth_info:
            auth_info = yield b"0123456789abcdefghij\x00"
        while True:
            d = self.box["script"].pop(0)
            if d == "more":
                auth_info = yield b"moredata"
            elif d == "success":
                yield Success(auth_info.user.name)
                return
            elif d == "forbidden":
                yield Forbidden()
                return
            else:
                raise RuntimeError("plugin failure")


class ScriptProvider(IdentityProvider):
    def __init__(self, env, box):
        self.env = env
        self.box = box
        self.p0 = ScriptPlugin("p0", "c0", box)
        self.p1 = ScriptPlugin("p1", "c1", box)

    def get_plugins(self):
        return [self.p0, self.p1]

    async def get_user(self, username):
        self.env.log.append(("sess", "get_user"))
        return await self.env.fut(("app", 0))


class Source:
    """row source built from items: ('row', bytes marker) | ('suspend',) | ('raise', code|None)"""

    def __init__(self, env, items, asynchronous):
        self.env = env
        self.items = items
        self.asynchronous = asynchronous
        self.pulled = 0

    def rows(self):
        if self.asynchronous:
            return self._agen()
        return self._gen()

    def _row(self, i):
        return ("R%d:" % i + "x" * self.widths[i],)

    def _gen(self):
        i = 0
        for it in self.items:
            if it[0] == "row":
                self.pulled += 1
                yield ("R%d:" % i + "x" * it[1],)
                i += 1
            elif it[0] == "raise":
                raise (MysqlError("boom", it[1]) if it[1] else RuntimeError("boom"))

    async def _agen(self):
        i = 0
        for it in self.items:
            if it[0] == "row":
                self.pulled += 1
                yield ("R%d:" % i + "x" * it[1],)
                i += 1
            elif it[0] == "suspend":
                await self.env.fut(("row", 0))
            else:
                raise (MysqlError("boom", it[1]) if it[1] else RuntimeError("boom"))


class LSSession(impl.ScriptSession):
    async def init(self, connection):
        self.connection = connection
        self.env.log.append(("sess", "init"))
        return await self.env.fut(("app", 0))

    async def close(self):
        self.env.log.append(("sess", "close"))
        return await self.env.fut(("app", 0))

    async def reset(self):
        self.env.log.append(("sess", "reset"))
        return await self.env.fut(("app", 0))

    async def use(self, database):
        self.env.log.append(("sess", "use"))
        return await self.env.fut(("app", 0))

    async def handle_query(self, sql, attrs):
        self.env.log.append(("sess", "query"))
        pre = self.env.box.pop("selfkill", None)
        if pre is not None:
            self.connection.kill(pre)
        return await self.env.fut(("app", 0))


class LSWriter(impl.FakeWriter):
    def write(self, b):
        super().write(b)
        self.env.log.append(("write", bytes(b)))

    def close(self):
        self.closed = True
        self.env.log.append(("wclose",))


class LSControl(impl.LocalControl):
    def __init__(self, env, server_id=3):
        super().__init__(server_id=server_id)
        self.env = env

    async def remove(self, connection_id):
        self.env.log.append(("remove",))
        await super().remove(connection_id)


# ----------------------------------------------------------------- packet abstraction
def abstract_packet(payload: bytes, ctx: str, orm: bool = False):
    """ctx: 'boot' | 'auth' | 'cmd' | 'prepare'; orm: CLIENT_OPTIONAL_RESULTSET_METADATA was negotiated, so a column count is
    preceded by the metadata-follows byte"""
    if not payload:
        return ("PFieldList", 0)
    b = payload[0]
    if b == 0xFF:
        return ("PErr", struct.unpack_from("<H", payload, 1)[0])
    if ctx == "boot" and b == 0x0A:
        return "PHandshake"
    if ctx == "auth":
        if b == 0xFE:
            return "PAuthSwitch"
        if b == 0x01:
            return "PAuthMore"
    if b == 0x00 and len(payload) == 12 and ctx == "prepare":
        sid, ncols, nparams = struct.unpack_from("<IHH", payload, 1)
        return ("PPrepOk", sid, nparams)
    m = MARK.search(payload)
    if m and not (ctx == "fieldlist" and payload[:4] == b"\x03def"):
        return ("PRow", int(m.group(1)))
    if b == 0x00 and len(payload) >= 7 and payload[1:3] == b"\x00\x00":
        status = struct.unpack_from("<H", payload, 3)[0]
        return ("POk", False, status)
    if b == 0xFE and len(payload) == 5:
        return ("PEof", struct.unpack_from("<H", payload, 3)[0])
    if b == 0xFE and 7 <= len(payload) < 16:
        # OK with EOF header: affected rows (lenenc), last insert id, status, warnings
        i = 1
        first = payload[i]
        i += {0xFC: 3, 0xFD: 4, 0xFE: 9}.get(first, 1)
        i += 1
        return ("POk", True, struct.unpack_from("<H", payload, i)[0])
    if payload[:4] == b"\x03def":
        # one or several concatenated column definitions
        n = 0
        i = 0
        while i < len(payload):
            for _ in range(6):
                l = payload[i]
                i += 1 + l
            i += 13
            if i < len(payload) and payload[i] in (0x00, 0xFB) and ctx == "fieldlist":
                i += 1
            n += 1
        return "PColDef" if (n == 1 and ctx != "fieldlist") else ("PFieldList", n)
    if orm and len(payload) == 2 and payload[0] in (0, 1) and payload[1] < 251:
        return ("PColCount", payload[1])
    if not orm and len(payload) == 1 and payload[0] < 251:
        return ("PColCount", payload[0])
    return ("UNKNOWN", payload[:16].hex())


def model_pkt(p):
    """parsed Coq pkt -> same canonical form"""
    if isinstance(p, str):
        return p
    if p[0] == "POk":
        return ("POk", p[1], p[2])
    return tuple(p)


# ----------------------------------------------------------------- one connection under lock-step
SZ_OK, SZ_EOF = 7, 5
COLS = None


def columns(n):
    return [ResultColumn(name="c%d" % i, type=ColumnType.VARCHAR) for i in range(n)]


def coq_sizes(head, coldefs, eof, final):
    return f"(mk_sizes {head} {core.coq_list([str(x) for x in coldefs])} {eof} {final})"


def coq_items(items):
    out = []
    for it in items:
        if it[0] == "row":
            out.append(f"IRow {it[2]}")
        elif it[0] == "suspend":
            out.append("ISuspend")
        else:
            out.append(f"IRaise {core.coq_option(it[1])}")
    return core.coq_list(out)


class Driver:
    """Drives one real connection and records (event term, observation) pairs."""

    def __init__(self, rng, buffer_size=None, batch=None):
        self.rng = rng
        self.env = impl.Env(own_sleep=True)
        self.env.box = {}
        self.box = {"script": []}
        # the configured server id, 0 included (the first connection of instance 0 has the id 0)
        self.ctl = LSControl(self.env, server_id=rng.choice([3, 0, 0, 1, 65535]))
        self.provider = ScriptProvider(self.env, self.box)
        self.session = None

        def factory():
            self.session = LSSession(self.env, 0)
            return self.session

        self.B = buffer_size or 2 ** 15
        self.BATCH = batch or 10_000
        self._patches = []
        if buffer_size:
            init = impl.MysqlStream.__init__
            defaults = init.__defaults__
            init.__defaults__ = (buffer_size,)
            self._patches.append(lambda: setattr(init, "__defaults__", defaults))
        if batch:
            ci = impl.MU.cooperative_iterate
            d2 = ci.__defaults__
            ci.__defaults__ = (batch,)
            self._patches.append(lambda: setattr(ci, "__defaults__", d2))
        # every third server is configured for TLS (an SSLContext the clients of these runs never ask to use): what the
        # server does for a connection must not depend on it
        import ssl as _ssl
        self.tls_configured = (rng.random() < 0.34)
        self.server = impl.MysqlServer(session_factory=factory, control=self.ctl, identity_provider=self.provider,
                                       ssl=_ssl.SSLContext(_ssl.PROTOCOL_TLS_SERVER) if self.tls_configured else None)
        self.reader = impl.asyncio.StreamReader(loop=self.env.loop)
        self.writer = LSWriter(self.env, 0)
        self.task = self.env.loop.create_task(self.server._client_connected_cb(self.reader, self.writer))
        self.env._conn_of_task[self.task] = 0
        self.events = []   # Coq terms
        self.cmds = []     # command tuple for EvPayload events, else None
        self._cmd = None
        self.obs = []      # (outputs, blocked, meta)
        self.ctx = "boot"
        self.server_caps = None
        self.orm = False
        self.qa = False
        self.caps = cl.BASE_CAPS
        self.depeof = False
        self.stmts = {}    # id -> dict(nparams, cursor: bool)
        self.pending_q = None   # ('text'|'exec'|'fieldlist', id, cursor)
        self.source = None
        self.sources = []      # every row source the application handed out, for the cumulative pull count
        self.handed_total = 0  # rows in packets passed to writer.write so far
        self.counts = []       # (pulled, handed) after every event, next to self.obs
        self.done_reported = False
        self.init_returned = False
        self.last_cmd = None
        self.handshaken = False
        self.env.settle()
        self.boot_obs = self.observe()
        self.hs_size = len(self.boot_obs[0][0][1][0][2]) if self.boot_obs[0] and self.boot_obs[0][0][0] == "OWrite" else 0
        self.ctx = "auth"

    def close(self):
        for p in self._patches:
            p()
        self.env.close()

    # ---- observation
    def blocked(self):
        if self.task.done():
            return "done"
        if self.reader._waiter is not None:
            return "read"
        for tag in self.env.live():
            return tag[0]
        return "unknown"

    def observe(self):
        outs = []
        for e in self.env.log:
            if e[0] == "write":
                try:
                    pk = [(q, abstract_packet(p, self.ctx, self.orm), p) for q, p in cl.split_raw(e[1])]
                    for _q, a, p in pk:
                        if a == "PHandshake" and self.server_caps is None:
                            self.server_caps = cl.parse_handshake_v10(p)["caps"]
                except ValueError:
                    # one writer.write that is not a whole number of packets: reported as one unknown packet (the
                    # comparison with the model and the grammar oracle both reject it)
                    pk = [(e[1][3] if len(e[1]) > 3 else 0, ("UNKNOWN", "partial-packet-write"), e[1])]
                outs.append(("OWrite", pk))
                self.handed_total += sum(1 for _q, a, _p in pk if isinstance(a, tuple) and a[0] == "PRow")
            elif e[0] == "sess":
                outs.append(("OSess", e[1]))
            elif e[0] == "wclose":
                outs.append("OWriterClose")
            elif e[0] == "remove":
                outs.append("OCtlRemove")
        self.env.log.clear()
        b = self.blocked()
        end = None
        if b == "done" and not self.done_reported:
            self.done_reported = True
            end = bool(self.task.cancelled() or self.task.exception() is not None)
        return outs, b, end

    def record(self, term):
        self.env.settle()
        self.events.append(term)
        self.cmds.append(self._cmd if term.startswith("EvPayload") else None)
        self.obs.append(self.observe())
        self.counts.append((sum(x.pulled for x in self.sources), self.handed_total))

    def in_command_phase_at(self, ev):
        return self.session is not None and any(e.startswith("EvPayload") for e in self.events)

    # ---- events
    def handshake(self, ok=True, depeof=False):
        self.handshaken = True
        self.depeof = depeof and ok
        caps = cl.BASE_CAPS | (cl.CLIENT_DEPRECATE_EOF if depeof else 0)
        # a conforming client may offer capabilities the server does not have; what counts is the intersection
        if self.rng.random() < 0.5:
            caps |= cl.CLIENT_OPTIONAL_RESULTSET_METADATA
        self.orm = bool((self.server_caps or 0) & caps & cl.CLIENT_OPTIONAL_RESULTSET_METADATA)
        if self.rng.random() < 0.5:
            caps |= cl.CLIENT_QUERY_ATTRIBUTES
        self.qa = bool((self.server_caps or 0) & caps & cl.CLIENT_QUERY_ATTRIBUTES)
        self.caps = caps
        p = cl.handshake_response(user=b"user", caps=caps, plugin=b"c0", charset=self.rng.choice([8, 45, 33, 45]))
        if not ok:
            p = p[:20]
        self.reader.feed_data(cl.frame(p, 1))
        self.record(f"EvHandshake {core.coq_bool(ok)} {core.coq_bool(depeof and ok)}")

    def decide(self, d, more=()):
        """resolve the pending get_user with the scripted verdict d"""
        if self.pending_call() != "get_user":
            return self.app_result("void")
        script = {"ASuccess": ["success"], "AForbidden": ["forbidden"], "AMore": ["more"], "ASwitch": []}.get(d, [])
        self.box["script"] = list(script)
        if d == "ANoUser":
            self.env.resolve(("app", 0), None, settle=False)
        elif d == "ARaise":
            self.env.resolve(("app", 0), exc=RuntimeError("provider failure"), settle=False)
        elif d == "ASwitch":
            self.env.resolve(("app", 0), User(name="user", auth_plugin="p1"), settle=False)
        else:
            self.env.resolve(("app", 0), User(name="user", auth_plugin="p0"), settle=False)
        self.record(f"EvDecide {d}")

    def auth_reply(self, d):
        script = {"ASuccess": ["success"], "AForbidden": ["forbidden"], "AMore": ["more"], "ARaise": ["raise"]}[d]
        self.box["script"] = list(script)
        self.reader.feed_data(cl.frame(b"reply", self._client_seq()))
        self.record(f"EvAuthReply {d}")

    def _client_seq(self):
        # the sequence id the server expects next
        c = list(self.ctl._connections.values())
        return c[0].stream.seq.value if c else 0

    def payload(self, cmd):
        """cmd: tuple describing the command; returns after feeding"""
        kind = cmd[0]
        seq = 0
        term = None
        data = None
        if kind == "query":
            data = bytes([cl.COM_QUERY]) + (b"\x00\x01" if self.qa else b"") + b"SELECT 1"
            term = "CQuery"
            self.pend_next = ("text", None, None)
        elif kind in ("ping", "resetconn", "debug"):
            data = bytes([{"ping": cl.COM_PING, "resetconn": cl.COM_RESET_CONNECTION, "debug": cl.COM_DEBUG}[kind]])
            term = {"ping": "CPing", "resetconn": "CResetConn", "debug": "CDebug"}[kind]
        elif kind == "quit":
            data = bytes([cl.COM_QUIT])
            term = "CQuit"
        elif kind == "initdb":
            data = bytes([cl.COM_INIT_DB]) + b"db"
            term = "CInitDb"
        elif kind == "fieldlist":
            data = bytes([cl.COM_FIELD_LIST]) + b"t\0"
            term = "CFieldList"
        elif kind == "prepare":
            n = cmd[1]
            data = bytes([cl.COM_STMT_PREPARE]) + b"SELECT " + b",".join([b"?"] * n)
            cd = len(packets.make_column_definition_41(server_charset=CharacterSet.utf8mb4, name="?"))
            term = f"CPrepare {n} {coq_sizes(12, [cd] * n, SZ_EOF, 0)}"
        elif kind == "longdata":
            # chunks may be cut anywhere - also inside a multi-byte character; the value only has to decode as a whole
            half = getattr(self, "ld_half", None)
            if half is None:
                half = self.ld_half = set()
            if cmd[1] not in self.stmts:
                chunk = b"abc"                 # unknown statement: the server ignores the packet
            elif cmd[1] in half:
                chunk = b"\xa9!"
                half.discard(cmd[1])
            elif self.rng.random() < 0.5:
                chunk = b"caf\xc3"
                half.add(cmd[1])
            else:
                chunk = b"abc"
            data = bytes([cl.COM_STMT_SEND_LONG_DATA]) + struct.pack("<IH", cmd[1], 0) + chunk
            term = f"CLongData {cmd[1]}"
        elif kind == "execute":
            sid, cursor = cmd[1], cmd[2]
            if sid in getattr(self, "ld_half", ()):
                self.payload(("longdata", sid))      # complete the character before the value is used
            getattr(self, "ld_half", set()).discard(sid)
            n = self.stmts.get(sid, {}).get("nparams", 0)
            # with CLIENT_QUERY_ATTRIBUTES the flag byte may also carry PARAMETER_COUNT_AVAILABLE (0x08): 0x09 is a cursor
            pca = self.qa and self.rng.random() < 0.5
            body = struct.pack("<IBI", sid, (1 if cursor else 0) | (8 if pca else 0), 1)
            if self.qa and (n or pca):
                body += cl.lenenc(n)
            if n:
                ptype = bytes([types.ColumnType.TINY, 0]) + (b"\x00" if self.qa else b"")
                body += bytes((n + 7) // 8) + b"\x01" + ptype * n + b"\x01" * n
            data = bytes([cl.COM_STMT_EXECUTE]) + body
            term = f"CExecute {sid} {core.coq_bool(cursor)}"
        elif kind == "fetch":
            sid, n = cmd[1], cmd[2]
            data = bytes([cl.COM_STMT_FETCH]) + struct.pack("<II", sid, n)
            term = f"CFetch {sid} {n} {SZ_EOF if not self.depeof else SZ_OK}"
        elif kind == "reset":
            getattr(self, "ld_half", set()).discard(cmd[1])
            data = bytes([cl.COM_STMT_RESET]) + struct.pack("<I", cmd[1])
            term = f"CReset {cmd[1]}"
        elif kind == "close":
            getattr(self, "ld_half", set()).discard(cmd[1])
            data = bytes([cl.COM_STMT_CLOSE]) + struct.pack("<I", cmd[1])
            term = f"CClose {cmd[1]}"
        elif kind == "changeuser":
            data = bytes([cl.COM_CHANGE_USER]) + b"user\0\x00db\0" + struct.pack("<H", 8) + b"c0\0"
            term = "CChangeUser"
        elif kind == "unknown":
            data = bytes([0x7F])
            term = "CUnknown"
        elif kind == "bad":
            if cmd[1]:
                data = bytes([cl.COM_STMT_FETCH]) + b"\x01"          # struct.error
                term = "CBad None"
            else:
                data = bytes([cl.COM_STMT_EXECUTE]) + b"\x01\x02"    # struct.error
                term = "CBad None"
        self.last_cmd = cmd
        self._cmd = cmd
        self.ctx = "prepare" if kind == "prepare" else ("auth" if kind == "changeuser" else ("fieldlist" if kind == "fieldlist" else "cmd"))
        self.reader.feed_data(cl.frame(data, 0))
        self.record(f"EvPayload ({term})")
        # learn statement ids from the prepare-OK
        if kind == "prepare":
            for o in self.obs[-1][0]:
                if isinstance(o, tuple) and o[0] == "OWrite":
                    for q, a, p in o[1]:
                        if isinstance(a, tuple) and a[0] == "PPrepOk":
                            self.stmts[a[1]] = dict(nparams=a[2])

    def payload_early(self, kind, sid=0):
        """a command sent while the server is still busy with the previous one (pipelining): it waits in the server's read buffer.
        Only commands whose handling needs none of this driver's per-command bookkeeping."""
        data, term = {"ping": (bytes([cl.COM_PING]), "CPing"), "debug": (bytes([cl.COM_DEBUG]), "CDebug"),
                      "resetconn": (bytes([cl.COM_RESET_CONNECTION]), "CResetConn"), "unknown": (bytes([0x7F]), "CUnknown"),
                      "close": (bytes([cl.COM_STMT_CLOSE]) + struct.pack("<I", sid), f"CClose {sid}")}[kind]
        if kind == "close":
            getattr(self, "ld_half", set()).discard(sid)
            self.stmts.pop(sid, None)
        self.pipelined = True
        keep = self._cmd
        self._cmd = (kind, "early")
        self.reader.feed_data(cl.frame(data, 0))
        self.record(f"EvPayload ({term})")
        self._cmd = keep

    def pending_call(self):
        for ob in reversed([self.boot_obs] + self.obs):
            calls = [o[1] for o in ob[0] if isinstance(o, tuple) and o[0] == "OSess"]
            if calls:
                return calls[-1]
        return None

    def app_result(self, kind, ncols=1, items=(), asynchronous=False, raise_code=None):
        """resolve the pending application call.  kind: 'void' | 'none' | 'set' | 'raise'"""
        pc = self.pending_call()
        if pc == "get_user":
            return self.decide("ASuccess")
        if kind in ("set", "none") and pc != "query":
            kind = "void"
        if kind == "void" and pc == "query":
            kind = "none"
        if kind == "void":
            was_init = pc == "init"
            self.env.resolve(("app", 0), None, settle=False)
            self.record("EvApp OVoid")
            if was_init:
                self.init_returned = True
        elif kind == "none":
            self.env.resolve(("app", 0), None, settle=False)
            self.record("EvApp ONone")
        elif kind == "raise":
            exc = MysqlError("app", raise_code) if raise_code else RuntimeError("app")
            self.env.resolve(("app", 0), exc=exc, settle=False)
            self.record(f"EvApp (ORaise {core.coq_option(raise_code)})")
        else:
            cols = columns(ncols)
            lc = self.last_cmd[0]
            binary = lc == "execute"
            its = []
            i = 0
            for it in items:
                if it[0] == "row":
                    row = ("R%d:" % i + "x" * it[1],) + ("y",) * (ncols - 1)
                    sz = len(packets.make_binary_resultrow(row, cols) if binary else packets.make_text_resultset_row(row, cols))
                    its.append(("row", it[1], sz))
                    i += 1
                else:
                    its.append(it)
            src = Source(self.env, [(x[0], x[1]) if x[0] == "row" else x for x in its], asynchronous)
            # rows must carry ncols values
            if ncols > 1:
                base = src.rows()
                if asynchronous:
                    async def widen():
                        async for r in base:
                            yield r + ("y",) * (ncols - 1)
                    rows = widen()
                else:
                    rows = (r + ("y",) * (ncols - 1) for r in base)
            else:
                rows = src.rows()
            self.source = src
            self.sources.append(src)
            cds = [len(packets.make_column_definition_41(server_charset=CharacterSet.utf8mb4, name=c.name, column_type=c.type,
                                                         character_set=c.character_set)) for c in cols]
            nrows = sum(1 for x in its if x[0] == "row")
            if lc == "fieldlist":
                # one definition packet per row (name = first column of the row)
                defs = []
                i = 0
                for x in its:
                    if x[0] == "row":
                        nm = "R%d:" % i + "x" * x[1]
                        defs.append(len(packets.make_column_definition_41(server_charset=CharacterSet.utf8mb4, table="t", name=nm,
                                                                          is_com_field_list=True, default=None)))
                        i += 1
                    elif x[0] == "raise":
                        defs = []
                        break
                final = SZ_OK if self.depeof else SZ_EOF
                term = f"EvApp (OSet {coq_sizes(0, defs, SZ_EOF, final)} {coq_items(its)})"
                # the library reads row[0] and row[4]
                if asynchronous:
                    async def five():
                        async for r in src.rows():
                            yield (r[0], None, None, None, None)
                    rows = five()
                else:
                    rows = ((r[0], None, None, None, None) for r in src.rows())
                cols = columns(5)
            else:
                c = list(self.ctl._connections.values())[0]
                if lc == "execute" and self.last_cmd[2]:
                    final = len(c.ok_or_eof(flags=types.ServerStatus.SERVER_STATUS_CURSOR_EXISTS))
                else:
                    final = len(c.ok_or_eof(affected_rows=nrows if lc == "query" else 0))
                term = f"EvApp (OSet {coq_sizes(1, cds, SZ_EOF, final)} {coq_items(its)})"
            self.env.resolve(("app", 0), ResultSet(rows=rows, columns=cols), settle=False)
            self.record(term)

    def simple(self, name):
        if name == "EvTick":
            self.env.resolve(("sleep", 0), None, settle=False)
        elif name == "EvRowReady":
            self.env.resolve(("row", 0), None, settle=False)
        elif name == "EvPause":
            self.writer.paused = True
        elif name == "EvResume":
            self.writer.paused = False
            if ("drain", 0) in self.env.pending:
                self.env.resolve(("drain", 0), None, settle=False)
        elif name == "EvSockFail":
            self.writer.fail = True
            if ("drain", 0) in self.env.pending:
                self.env.resolve(("drain", 0), None, settle=False)
        elif name == "EvEof":
            self.reader.feed_eof()
        elif name == "EvEofMidPacket":
            self.reader.feed_data(b"\x05\x00")
            self.reader.feed_eof()
            name = "EvEofMidPacket false"
        elif name == "EvBadSeq":
            # a PING whose sequence id is not the one the server expects (0 at a command boundary)
            # (the payload is not consumed by the library when the id is wrong; empty and non-empty payloads are both sent)
            self.badseq_n = getattr(self, "badseq_n", 0) + 1
            self.reader.feed_data(cl.frame(b"\x0e" if self.badseq_n % 2 == 0 else b"", (self._client_seq() + 9) % 256))
        self.record(name)

    def eof_mid(self, k):
        """the client sends the first k bytes of a PING packet and goes away"""
        data = cl.frame(bytes([cl.COM_QUERY]) + b"SELECT 12345", self._client_seq() if not self.handshaken or _awaiting_auth_reply(self) else 0)
        k = max(1, min(k, len(data) - 1))
        self.reader.feed_data(data[:k])
        self.reader.feed_eof()
        self.record(f"EvEofMidPacket {core.coq_bool(k >= 4)}")

    def kill(self, kind, selfkill=False):
        k = KillKind.QUERY if kind == "KQ" else KillKind.CONNECTION
        conns = list(self.ctl._connections.values())
        if selfkill:
            # delivered from inside the connection's own task: emulate with the task marked as current
            if conns:
                import asyncio
                t = conns[0]._task
                prev = asyncio.tasks._current_tasks.get(self.env.loop) if hasattr(asyncio.tasks, "_current_tasks") else None
                try:
                    asyncio.tasks._enter_task(self.env.loop, t)
                    conns[0].kill(k)
                finally:
                    asyncio.tasks._leave_task(self.env.loop, t)
            self.record(f"EvKillSelf {kind}")
        else:
            if conns:
                conns[0].kill(k)
            self.record(f"EvKill {kind}")


def compare(driver: Driver, parsed):
    """parsed = (boot, steps) from Coq.  Returns None or a description of the first difference."""
    (boot, steps) = parsed
    def canon_model_outs(outs):
        res = []
        end = None
        for o in outs:
            if isinstance(o, tuple) and o[0] == "OWrite":
                res.append(("OWrite", [(q, model_pkt(p)) for q, p in o[1]]))
            elif isinstance(o, tuple) and o[0] == "OSess":
                res.append(("OSess", {"SGetUser": "get_user", "SInit": "init", "SClose": "close", "SQuery": "query",
                                      "SReset": "reset", "SUse": "use", "SPlugin": "plugin"}[o[1]]))
            elif isinstance(o, tuple) and o[0] == "OEnd":
                end = o[1]
            else:
                res.append(o)
        return res, end

    def canon_impl_outs(outs):
        res = []
        for o in outs:
            if isinstance(o, tuple) and o[0] == "OWrite":
                res.append(("OWrite", [(q, a) for q, a, _ in o[1]]))
            else:
                res.append(o)
        return res

    b_out, b_ctl = boot[0]
    mo, _ = canon_model_outs(b_out)
    io = canon_impl_outs(driver.boot_obs[0])
    if mo != io or CTL[b_ctl[0]] != driver.boot_obs[1]:
        return dict(step=-1, event="boot", model=(mo, CTL[b_ctl[0]]), impl=(io, driver.boot_obs[1]))
    for i, (ev, ob, ms) in enumerate(zip(driver.events, driver.obs, steps)):
        m_out, m_ctl, m_cnt = ms
        mo, mend = canon_model_outs(m_out)
        io = canon_impl_outs(ob[0])
        if mo != io or CTL[m_ctl[0]] != ob[1] or (mend is not None) != (ob[2] is not None) or (mend is not None and bool(mend) != ob[2]):
            return dict(step=i, event=ev, model=dict(out=mo, blocked=CTL[m_ctl[0]], end=mend),
                        impl=dict(out=io, blocked=ob[1], end=ob[2]), events=driver.events[: i + 1])
        # the counters of Proofs/LazyProofs.v: rows pulled from the application's sources, rows handed to the socket
        if i < len(driver.counts) and tuple(m_cnt) != tuple(driver.counts[i]):
            return dict(step=i, event=ev, model=dict(pulled_handed=tuple(m_cnt)), impl=dict(pulled_handed=tuple(driver.counts[i])),
                        events=driver.events[: i + 1])
    return None


def coq_term(driver: Driver):
    return f"trace {driver.B} {driver.BATCH} {driver.hs_size} {core.coq_list(driver.events)}"


# ----------------------------------------------------------------- random walks over the real connection
def gen_items(rng, allow_async=True, allow_raise=True, maxrows=12):
    n = rng.choice([0, 1, 2, 3, 5, maxrows])
    items = []
    asynchronous = allow_async and rng.random() < 0.4
    for i in range(n):
        if asynchronous and rng.random() < 0.25:
            items.append(("suspend",))
        items.append(("row", rng.choice([0, 1, 3, 10])))
    if allow_raise and rng.random() < 0.15:
        items.insert(rng.randint(0, len(items)), ("raise", rng.choice([None, 1064])))
    if asynchronous and rng.random() < 0.2:
        items.append(("suspend",))
    return items, asynchronous


def random_walk(rng, d: Driver, nsteps, faults=True, kills=True, auth_variants=True, pauses=False, app_failures=None, pipeline=False):
    """Drive `d` with events that are meaningful at the current blocking point (plus always-possible ones)."""
    last_app = None
    if app_failures is None:
        app_failures = faults      # init / reset / use / close raising (an application failure, not a transport fault)
    for _ in range(nsteps):
        b = d.blocked()
        if b in ("done", "unknown"):
            break
        r = rng.random()
        if (faults or pauses) and r < 0.04:
            d.simple(rng.choice(["EvPause", "EvResume", "EvResume"]))
            continue
        if faults and r < 0.05:
            d.simple("EvSockFail")
            continue
        if faults and r < 0.065 and b != "read":
            d.simple("EvEof")
            continue
        if kills and r < 0.10:
            d.kill(rng.choice(["KQ", "KQ", "KC"]), selfkill=False)
            continue
        if pipeline and b in ("app", "row", "sleep", "drain") and d.last_cmd and d.last_cmd[0] != "changeuser" and d.init_returned and r < 0.3:
            # the client does not wait for the response: the next command is already on its way
            d.payload_early(rng.choice(["ping", "debug", "resetconn", "unknown", "close", "ping"]), sid=rng.choice(list(d.stmts) or [0]))
            continue
        if d.writer.paused and b == "drain":
            if kills and rng.random() < 0.3:
                d.kill(rng.choice(["KQ", "KQ", "KC"]), selfkill=False)
                continue
            d.simple(rng.choice(["EvResume", "EvResume", "EvSockFail"] if faults else ["EvResume"]))
            continue
        if b == "sleep":
            d.simple("EvTick")
        elif b == "row":
            d.simple("EvRowReady")
        elif b == "app":
            call = None
            for ob in reversed(d.obs):
                calls = [o[1] for o in ob[0] if isinstance(o, tuple) and o[0] == "OSess"]
                if calls:
                    call = calls[-1]
                    break
            if call is None:
                calls = [o[1] for o in d.boot_obs[0] if isinstance(o, tuple) and o[0] == "OSess"]
                call = calls[-1] if calls else None
            if call == "get_user":
                ch = rng.random()
                if not auth_variants or ch < 0.6:
                    d.decide("ASuccess")
                elif ch < 0.7:
                    d.decide("AForbidden")
                elif ch < 0.78:
                    d.decide("ANoUser")
                elif ch < 0.84:
                    d.decide("ARaise")
                elif ch < 0.92:
                    d.decide("AMore")
                else:
                    d.decide("ASwitch")
            elif call == "query":
                ch = rng.random()
                if ch < 0.15:
                    d.app_result("none")
                elif ch < 0.3:
                    d.app_result("raise", raise_code=rng.choice([None, 1064, 1105]))
                else:
                    items, asyn = gen_items(rng)
                    d.app_result("set", ncols=rng.choice([1, 1, 2, 3]), items=items, asynchronous=asyn)
            else:
                if app_failures and rng.random() < 0.1:
                    d.app_result("raise", raise_code=rng.choice([None, 1064]))
                else:
                    d.app_result("void")
        elif b == "read":
            if not d.handshaken:
                ch = rng.random()
                d.handshake(ok=ch > 0.08, depeof=rng.random() < 0.5)
            elif d.session is not None and _awaiting_auth_reply(d):
                if faults and rng.random() < 0.08:
                    d.simple(rng.choice(["EvEof", "EvEofMidPacket", "EvBadSeq", "EvBadSeq"]))
                    continue
                d.auth_reply(rng.choice(["ASuccess", "ASuccess", "AForbidden", "AMore", "ARaise"]))
            else:
                ch = rng.random()
                ids = list(d.stmts) or [0]
                sid = rng.choice(ids + [77]) if rng.random() < 0.9 else 99
                if faults and ch < 0.03:
                    d.simple(rng.choice(["EvEof", "EvEofMidPacket", "EvBadSeq"]))
                elif ch < 0.2:
                    d.payload(("query",))
                elif ch < 0.3:
                    d.payload((rng.choice(["ping", "resetconn", "debug"]),))
                elif ch < 0.4:
                    d.payload(("prepare", rng.choice([0, 1, 2, 3])))
                elif ch < 0.55:
                    d.payload(("execute", sid, rng.random() < 0.5))
                elif ch < 0.7:
                    d.payload(("fetch", sid, rng.choice([0, 1, 2, 3, 7, 2 ** 32 - 1])))
                elif ch < 0.74:
                    d.payload(("reset", sid))
                elif ch < 0.78:
                    d.payload(("close", sid))
                elif ch < 0.82:
                    d.payload(("longdata", sid))
                elif ch < 0.86:
                    d.payload(("initdb",))
                elif ch < 0.9:
                    d.payload(("fieldlist",))
                elif ch < 0.93:
                    d.payload(("changeuser",))
                elif ch < 0.96:
                    d.payload((rng.choice(["unknown", "bad"]), rng.random() < 0.5))
                else:
                    d.payload(("quit",))
        elif b == "drain":
            d.simple("EvResume")
        else:
            break


def _awaiting_auth_reply(d: Driver):
    """the last packet the server wrote is an auth switch / more data request"""
    for ob in reversed(d.obs):
        for o in reversed(ob[0]):
            if isinstance(o, tuple) and o[0] == "OWrite":
                a = o[1][-1][1]
                return a in ("PAuthSwitch", "PAuthMore")
    return False


# ----------------------------------------------------------------- the protocol grammar as oracle (Model/Resp.v)
HEADER_RESP = HEADER + """From MM Require Import Model.Resp.
"""
HEADER_MON = HEADER_RESP + """From MM Require Import Proofs.C03Proofs.
"""

RK = {"query": "RKQuery", "ping": "RKOk", "resetconn": "RKOk", "debug": "RKOk", "initdb": "RKOk", "reset": "RKOk",
      "quit": "RKNone", "longdata": "RKNone", "close": "RKNone", "fieldlist": "RKFieldList", "prepare": "RKPrepare",
      "fetch": "RKFetch", "changeuser": "RKAuth", "unknown": "RKOk", "bad": "RKOk"}


def coq_pkt(a):
    if isinstance(a, str):
        return a
    if a[0] == "POk":
        return f"(POk {core.coq_bool(a[1])} {a[2]})"
    if a[0] == "UNKNOWN":
        return "(PErr 0)"
    return "(" + " ".join(str(x) for x in a) + ")"


def responses(d: ls.Driver):
    """[(cmd tuple, [(seq, abstract packet)], reached_read)] for every command the client sent in command phase"""
    out = []
    cur = None
    seen_payload = False
    killed = False
    prev_blocked = d.boot_obs[1] if getattr(d, "boot_obs", None) else None
    for ev, ob, cmd in zip(d.events, d.obs, d.cmds):
        blocked_now = ob[1]
        if ev in ("EvKill KC", "EvKillSelf KC"):
            killed = True      # the ERR announcing the termination is not a response to a command
            cur = None         # the command in progress is abandoned together with the connection
            break
        if ev.startswith("EvPayload"):
            seen_payload = True
            if cur is not None:
                out.append(cur)
            cur = [cmd, [], False]
        if cur is not None and ev.startswith("EvKill"):
            # where the task was suspended when the kill arrived ("@drain", "@app", ...) goes in front of the final marker
            base = tuple(x for x in cur[0] if x != "killed")
            cur[0] = base + ("@" + str(prev_blocked), "killed")
        if cur is not None:
            for o in ob[0]:
                if isinstance(o, tuple) and o[0] == "OWrite":
                    cur[1].extend((q, a) for q, a, _ in o[1])
            mid_exchange = bool(cur[1]) and cur[1][-1][1] in ("PAuthSwitch", "PAuthMore")
            if (ob[1] == "read" and not mid_exchange) or ob[1] == "done":
                cur[2] = True
                out.append(cur)
                cur = None
        else:
            # not inside a command: anything written in command phase is unsolicited
            if seen_payload and not killed and any(isinstance(o, tuple) and o[0] == "OWrite" for o in ob[0]):
                out.append([("idle",), [(q, a) for o in ob[0] if isinstance(o, tuple) and o[0] == "OWrite" for q, a, _ in o[1]], True])
        prev_blocked = blocked_now
    if cur is not None:
        out.append(cur)
    return out



def grammar_terms(drivers, monitor=False):
    """Coq terms `accepts dep kind packets` for every command of every trace (+ structural witnesses).
    monitor=True: the client-side monitor of Proofs/C03Proofs.v (`mfeed`: grammar AND sequence numbers) is folded over the
    (sequence id, packet) pairs instead - the very function the theorem c03_lockstep_conversation is stated with."""
    oterms, refs = [], []
    witness = None
    for d in drivers:
        for cmd, pk, reached in responses(d):
            if cmd[0] == "idle":
                witness = witness or dict(kind="unsolicited", packets=[repr(a) for _, a in pk], events=d.events[:40])
                continue
            if not reached:
                continue
            rk = RK.get(cmd[0], "RKOk")
            if cmd[0] == "execute":
                rk = f"(RKExecute {core.coq_bool(cmd[2])})"
            seqs = [q for q, _ in pk]
            exp, e = [], 1
            for _, a in pk:
                exp.append(e % 256)
                e += 2 if a in ("PAuthSwitch", "PAuthMore") else 1   # the client's reply takes one id
            if seqs != exp and not (cmd[0] == "changeuser" and cmd[-1] == "killed"):
                witness = witness or dict(kind="sequence", command=repr(cmd), seqs=seqs[:10], events=d.events[:40])
            if monitor:
                pairs = core.coq_list([f"({q}, {coq_pkt(a)})" for q, a in pk])
                oterms.append(f"accepting {rk} (m_rs (fold_left (mfeed {core.coq_bool(d.depeof)} {rk}) {pairs} m0))")
            else:
                oterms.append(f"accepts {core.coq_bool(d.depeof)} {rk} {core.coq_list([coq_pkt(a) for _, a in pk])}")
            refs.append((d, cmd, pk))
    return oterms, refs, witness
