"""TLS hand-over probe (C04): a real loopback server with the test certificate; a raw client sends the SSLRequest and
the TLS ClientHello either in two segments (with a pause between them) or in ONE write.  Prints a JSON object."""
import asyncio, json, os, socket, ssl, struct, sys, time

REPO = os.environ.get("VERIF_REPO", "/repo")
sys.path.insert(0, REPO)
sys.path.insert(0, os.path.dirname(os.path.abspath(__file__)))
import logging
logging.disable(logging.CRITICAL)
from mysql_mimic import MysqlServer, Session  # noqa: E402
import client as cl  # noqa: E402

CERT = os.path.join(REPO, "tests/fixtures/certificate.pem")
KEY = os.path.join(REPO, "tests/fixtures/key.pem")


def client(port, together, split_at=None):
    s = socket.create_connection(("127.0.0.1", port))
    s.settimeout(2.5)
    try:
        s.recv(4096)
        ctx = ssl.SSLContext(ssl.PROTOCOL_TLS_CLIENT)
        ctx.check_hostname = False
        ctx.verify_mode = ssl.CERT_NONE
        inb, outb = ssl.MemoryBIO(), ssl.MemoryBIO()
        o = ctx.wrap_bio(inb, outb)
        try:
            o.do_handshake()
        except ssl.SSLWantReadError:
            pass
        hello = outb.read()
        sslreq = cl.frame(cl.ssl_request(), 1)
        if together:
            s.sendall(sslreq + hello)
        else:
            s.sendall(sslreq)
            time.sleep(0.3)
            s.sendall(hello)
        while True:
            data = s.recv(65536)
            if not data:
                return "server closed"
            inb.write(data)
            try:
                o.do_handshake()
                break
            except ssl.SSLWantReadError:
                out = outb.read()
                if out:
                    s.sendall(out)
        out = outb.read()
        if out:
            s.sendall(out)
        # the handshake response inside TLS, then a PING
        o.write(cl.frame(cl.handshake_response(user=b"u", caps=cl.BASE_CAPS | cl.CLIENT_SSL), 2))
        s.sendall(outb.read())
        buf = b""
        deadline = time.time() + 2.5
        while time.time() < deadline:
            data = s.recv(65536)
            if not data:
                return "server closed after TLS"
            inb.write(data)
            try:
                buf += o.read(65536)
            except ssl.SSLWantReadError:
                continue
            if len(buf) >= 5:
                return "completed" if buf[4:5] == b"\x00" else "refused inside TLS"
        return "no reply inside TLS"
    except socket.timeout:
        return "timeout: the server never answers the ClientHello"
    finally:
        s.close()


PULLED = [0]
NROWS = 40000


class StreamSession(Session):
    """a result that never suspends: 40000 rows of 1000 bytes, pulls counted"""

    async def query(self, expression, sql, attrs):
        async def rows():
            for i in range(NROWS):
                PULLED[0] += 1
                yield ("x" * 1000,)
        return rows(), ["c"]


def stalled_client(port, tls):
    """log in (over TLS or in the clear), ask for the big result, then do not read for 1.5 s"""
    s = socket.create_connection(("127.0.0.1", port))
    s.settimeout(5)
    try:
        s.recv(4096)
        if tls:
            ctx = ssl.SSLContext(ssl.PROTOCOL_TLS_CLIENT)
            ctx.check_hostname = False
            ctx.verify_mode = ssl.CERT_NONE
            s.sendall(cl.frame(cl.ssl_request(), 1))
            time.sleep(0.3)
            s = ctx.wrap_socket(s)
            s.sendall(cl.frame(cl.handshake_response(user=b"u", caps=cl.BASE_CAPS | cl.CLIENT_SSL), 2))
        else:
            s.sendall(cl.frame(cl.handshake_response(user=b"u"), 1))
        s.recv(4096)
        PULLED[0] = 0
        s.sendall(cl.frame(bytes([cl.COM_QUERY]) + b"SELECT c FROM t", 0))
        time.sleep(1.5)
        return PULLED[0]
    except Exception as e:  # noqa
        return "probe failed: " + type(e).__name__
    finally:
        try:
            s.close()
        except Exception:  # noqa
            pass


async def backpressure():
    sc = ssl.SSLContext(ssl.PROTOCOL_TLS_SERVER)
    sc.load_cert_chain(CERT, KEY)
    srv = MysqlServer(session_factory=StreamSession, ssl=sc)
    await srv.start_server(port=0, host="127.0.0.1")
    port = srv.sockets()[0].getsockname()[1]
    loop = asyncio.get_running_loop()
    res = dict(rows=NROWS)
    res["plain_stalled_pulled"] = await loop.run_in_executor(None, stalled_client, port, False)
    res["tls_stalled_pulled"] = await loop.run_in_executor(None, stalled_client, port, True)
    srv.close()
    print("@@" + json.dumps(res))


async def main():
    sc = ssl.SSLContext(ssl.PROTOCOL_TLS_SERVER)
    sc.load_cert_chain(CERT, KEY)
    srv = MysqlServer(session_factory=Session, ssl=sc)
    await srv.start_server(port=0, host="127.0.0.1")
    port = srv._server.sockets[0].getsockname()[1] if hasattr(srv, "_server") else srv.sockets()[0].getsockname()[1]
    loop = asyncio.get_running_loop()
    res = {}
    res["separate"] = await loop.run_in_executor(None, client, port, False)
    res["together"] = await loop.run_in_executor(None, client, port, True)
    srv.close()
    print("@@" + json.dumps(res))

asyncio.run(backpressure() if sys.argv[1:] == ["backpressure"] else main())
