"""Histories of prepared-statement commands on ONE real connection against Model/Stmts.v (srun): COM_STMT_PREPARE,
COM_STMT_SEND_LONG_DATA (known / unknown statements and parameters, empty chunks, truncated payloads), COM_STMT_EXECUTE
(inline values, long data, NULLs, attributes; the application accepts or refuses it), COM_STMT_RESET and COM_STMT_CLOSE
(known / unknown / truncated), interleaved over several statements.  Compared operation by operation: what the application
was called with, or the class of the reply.  The store is what carries a history: long data left behind, ids in use."""
from __future__ import annotations

import struct

import core
import client as cl
import impl
import pk

HEADER = """From Coq Require Import List NArith ZArith.
From MM Require Import Lib.Bytes Lib.Decimal Model.Parse Model.Placeholders Model.Exec Model.Stmts.
Import ListNotations. Open Scope N_scope.
"""

TEMPLATES = [b"SELECT 1", b"SELECT ?", b"SELECT ?, ?", b"INSERT INTO t VALUES (?, '?', ?)", b"SELECT a FROM t WHERE b = ? AND c = \"x?\"",
             b"SELECT ?, ?, ?"]


def gen_history(rng, qa):
    """-> list of (kind, payload-after-command-byte | sql, meta)"""
    ops = []
    known = []       # (id, nparams) as the client believes
    nxt = 0
    for _ in range(rng.randint(4, 18)):
        r = rng.random()
        if r < 0.22 or not known:
            tpl = rng.choice(TEMPLATES)
            ops.append(("prepare", tpl, None))
            known.append((nxt, tpl.count(b"?") if b"'?'" not in tpl and b"x?" not in tpl else None))
            nxt += 1
        elif r < 0.5:
            sid = rng.choice(known)[0] if rng.random() < 0.85 else rng.choice([nxt, nxt + 5, 2 ** 32 - 1])
            pid = rng.choice([0, 0, 1, 2, 7])
            data = bytes(rng.choice(b"ab'\\?;x") for _ in range(rng.choice([0, 1, 2, 5])))
            d = struct.pack("<IH", sid, pid) + data
            if rng.random() < 0.06:
                d = d[:rng.randrange(0, 6)]      # truncated: the parser fails, the command loop answers ERR
            ops.append(("longdata", d, None))
        elif r < 0.82:
            sid, _n = rng.choice(known) if rng.random() < 0.9 else (rng.choice([nxt, 2 ** 32 - 1]), 0)
            # the number of placeholders is what the server announced: replayed from the prepare reply at run time
            ops.append(("execute", sid, dict(refuse=rng.random() < 0.3, cursor=rng.random() < 0.15,
                                            long_for=[i for i in range(3) if rng.random() < 0.4],
                                            nattrs=(rng.choice([0, 0, 1, 2]) if qa else 0), truncate=rng.random() < 0.04)))
        elif r < 0.92:
            sid = rng.choice(known)[0] if rng.random() < 0.8 else nxt + 3
            d = struct.pack("<I", sid)
            ops.append(("reset", d[:rng.choice([4, 4, 4, 4, 2])], None))
        else:
            sid = rng.choice(known)[0] if rng.random() < 0.8 else nxt + 3
            d = struct.pack("<I", sid)
            ops.append(("close", d[:rng.choice([4, 4, 4, 4, 3])], None))
            if len(d) == 4:
                known[:] = [k for k in known if k[0] != sid] or known
    return ops


def run_history(rng, qa, ops):
    """drive the real connection; -> (model op terms, observed outputs, float-token table)"""
    env = impl.Env(own_sleep=False)
    try:
        log = []
        refuse = [False]

        class S(impl.ScriptSession):
            async def handle_query(self, sql, attrs):
                log.append((sql, dict(attrs)))
                if refuse[0]:
                    from mysql_mimic.errors import MysqlError
                    raise MysqlError("refused by the application", 1142)
                return None

        srv = impl.make_server(env, lambda: S(env, 0))
        c = impl.Conn(env, srv)
        env.settle(); c.take()
        caps = cl.BASE_CAPS | (cl.CLIENT_QUERY_ATTRIBUTES if qa else 0)
        c.feed(cl.frame(cl.handshake_response(user=b"u", caps=caps, charset=8), 1)); c.take()
        announced = {}
        terms, outs = [], []
        for kind, arg, meta in ops:
            if kind == "prepare":
                c.feed(cl.frame(bytes([cl.COM_STMT_PREPARE]) + arg, 0))
                first = cl.reassemble(c.take())[0][1]
                terms.append(f"SPrepare {core.coq_N_list(arg)}")
                if first[0] == 0:
                    sid, _nc, npar = struct.unpack_from("<IHH", first, 1)
                    announced[sid] = npar
                    outs.append(("RPrepared", sid, npar))
                else:
                    outs.append(("RErr", struct.unpack_from("<H", first, 1)[0]))
                continue
            if kind == "execute":
                sid = arg
                npar = announced.get(sid, 0)
                pos = []
                for i in range(npar):
                    p = pk.gen_param(rng, named=False, hostile=True)
                    while isinstance(p.value, tuple):       # floats need repr() tokens: covered by C06's single executions
                        p = pk.gen_param(rng, named=False, hostile=True)
                    if i in meta["long_for"] and not p.is_null():
                        p = pk.P(b"", pk.T_VAR_STRING, False, b"ignored")
                        p.long_data = True
                    pos.append(p)
                attrs = []
                for _ in range(meta["nattrs"]):
                    a = pk.gen_param(rng, named=True, hostile=False)
                    while isinstance(a.value, tuple):
                        a = pk.gen_param(rng, named=True, hostile=False)
                    attrs.append(a)
                flags = (1 if meta["cursor"] else 0) | (8 if qa else 0)
                d = pk.encode_execute(qa, sid, flags, pos, attrs)
                if meta["truncate"]:
                    d = d[:rng.randrange(0, len(d))]
                payload, cmd = d, cl.COM_STMT_EXECUTE
                terms.append(f"SExecute {core.coq_N_list(d)}")
            else:
                payload = arg
                cmd = {"longdata": cl.COM_STMT_SEND_LONG_DATA, "reset": cl.COM_STMT_RESET, "close": cl.COM_STMT_CLOSE}[kind]
                terms.append({"longdata": "SLongData", "reset": "SReset", "close": "SClose"}[kind] + " " + core.coq_N_list(arg))
            n0 = len(log)
            refuse[0] = bool(meta and meta.get("refuse"))
            c.feed(cl.frame(bytes([cmd]) + payload, 0))
            raw = cl.split_raw(c.take())
            refuse[0] = False
            if len(log) > n0:
                sql, attrs_got = log[-1]
                outs.append(("RExec", sql.encode("latin1"), sorted((k.encode("latin1"), pk.canon_impl_value(v)) for k, v in attrs_got.items())))
            elif not raw:
                outs.append(("RNone",))
            elif raw[0][1][:1] == b"\xff":
                outs.append(("RErr", struct.unpack_from("<H", raw[0][1], 1)[0]))
            elif raw[0][1][:1] == b"\x00" and len(raw) == 1:
                outs.append(("ROk",))
            else:
                outs.append(("other", raw[0][1][:8].hex()))
        c.eof()
        return terms, outs
    finally:
        env.close()


def canon_model(o):
    """parsed Coq sout -> the same canonical form as run_history's observations"""
    if o == "RNone" or o == "ROk":
        return (o,)
    tag = o[0]
    if tag == "RPrepared":
        return ("RPrepared", o[1], o[2])
    if tag == "RExec":
        return ("RExec", bytes(o[1]), sorted((bytes(k), pk.canon_model_value(v)) for k, v in o[2]))
    if tag == "RErr":
        e = o[1]
        # the command loop sends MysqlError codes as they are, every other exception as error 1105
        return ("RErr", e[1] if isinstance(e, tuple) and e[0] == "MysqlErr" else 1105)
    return ("?", repr(o))


def same(a, b):
    if a[0] != b[0]:
        return False
    if a[0] == "RExec":
        return a[1] == b[1] and pk.same_pairs(a[2], b[2])
    return tuple(a) == tuple(b)


def run(ctx, name, n):
    """-> (histories, operations, disagreements, kinds of outcome seen)"""
    rng = ctx.rng
    cases = []
    for k in range(n):
        qa = (k % 2 == 1)
        ops = gen_history(rng, qa)
        terms, outs = run_history(rng, qa, ops)
        cases.append((qa, ops, terms, outs))
    cterms = [f"snd (srun {core.coq_bool(qa)} [] store0 {core.coq_list(terms)})" for qa, _, terms, _ in cases]
    model = core.run_coq_terms(ctx, name, HEADER, cterms, shard=40)
    bad, kinds, nops = [], {}, 0
    for (qa, ops, terms, outs), m in zip(cases, model):
        mm = [canon_model(o) for o in m]
        nops += len(outs)
        for o in outs:
            kinds[o[0]] = kinds.get(o[0], 0) + 1
        for i, (a, b) in enumerate(zip(outs, mm)):
            if not same(a, b):
                bad.append(dict(kind="statement-history", query_attributes=qa, step=i, operations=terms[:i + 1], impl=repr(a)[:300], model=repr(b)[:300]))
                break
    return len(cases), nops, bad, kinds
