"""Regression over the stored seeded changes: apply each patch to /repo, run the property's quick check, restore /repo.
Prints one line per seed: caught with witness / caught (no concrete input) / MISSED / patch does not apply."""
import glob, json, os, subprocess, sys
HERE = os.path.dirname(os.path.dirname(os.path.abspath(__file__)))
only = set(sys.argv[1:])
for d in sorted(glob.glob(os.path.join(HERE, "seeded", "*"))):
    sid = os.path.basename(d)
    if only and sid not in only:
        continue
    prop = sid.split("-")[0]
    meta = json.load(open(os.path.join(d, "meta.json")))
    if meta.get("retired"):
        print(f"{sid}: retired (no longer breaks the property on the current tree)", flush=True)
        continue
    if subprocess.run("git -C /repo status --short | grep -q .", shell=True).returncode == 0:
        print("repo dirty"); sys.exit(2)
    p = subprocess.run(["git", "-C", "/repo", "apply", "--3way", os.path.join(d, "patch.diff")], stdout=subprocess.PIPE, stderr=subprocess.STDOUT)
    if p.returncode != 0:
        subprocess.run("git -C /repo reset -q; git -C /repo checkout -- .", shell=True)
        print(f"{sid}: patch does not apply to the current tree (skipped)", flush=True)
        continue
    try:
        out = subprocess.run(["./check", prop, "quick"], cwd=HERE, stdout=subprocess.PIPE, stderr=subprocess.STDOUT, text=True, timeout=1500).stdout
    finally:
        subprocess.run("git -C /repo reset -q; git -C /repo checkout -- .", shell=True)
    v = [l for l in out.splitlines() if l.startswith("VIOLATION")]
    verdict = "MISSED" if not v else ("caught (no concrete input)" if all(l.endswith("no-failing-input-found") for l in v) else "caught with witness")
    print(f"{sid}: {verdict}", flush=True)
subprocess.run("git -C %s checkout -- evidence" % HERE, shell=True)   # evidence of patched-tree runs is not kept
