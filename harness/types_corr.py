"""types.py fixed-width and length-encoded readers / writers against Lib/Bytes.v (le_bytes, le_val, to_signed, uint_len,
read_uint_len): every reader on boundary and random inputs incl. short ones, every writer on boundary and random values.
Used by C04 (framing header), C05 (result cells), C06 / C17 (parameters, attributes) - everything above rests on these."""
from __future__ import annotations

import io
import struct

import core
from mysql_mimic import types as T

HEADER = """From Coq Require Import List NArith ZArith Bool.
From MM Require Import Lib.Bytes.
Import ListNotations. Open Scope N_scope.
Definition beq (a b : bytes) : bool := if list_eq_dec N.eq_dec a b then true else false.
Definition chk_read (k : nat) (d : bytes) (got : option (N * N)) : bool :=
  match read_uint k d, got with
  | Some (v, r), Some (g, rl) => (v =? g) && (len r =? rl)
  | None, None => true
  | _, _ => false
  end.
Definition chk_sread (k : nat) (d : bytes) (got : option (Z * N)) : bool :=
  match read_uint k d, got with
  | Some (v, r), Some (g, rl) => Z.eqb (to_signed k v) g && (len r =? rl)
  | None, None => true
  | _, _ => false
  end.
Definition chk_write (k : nat) (n : N) (b : bytes) : bool := beq (le_bytes k n) b.
Definition chk_rlen (d : bytes) (got : option (N * N)) : bool :=
  match read_uint_len d, got with
  | Some (v, r), Some (g, rl) => (v =? g) && (len r =? rl)
  | None, None => true
  | _, _ => false
  end.
Definition chk_wlen (i : N) (b : bytes) : bool := beq (uint_len i) b && match read_uint_len (b ++ [7]) with Some (v, [7]) => v =? i | _ => false end.
Definition chk_rstr (d : bytes) (got : option (bytes * N)) : bool :=
  match read_str_len d, got with
  | Some (s, r), Some (g, rl) => beq s g && (len r =? rl)
  | None, None => true
  | _, _ => false
  end.
"""

L = core.coq_N_list
READERS = {1: T.read_uint_1, 2: T.read_uint_2, 3: T.read_uint_3, 4: T.read_uint_4, 6: T.read_uint_6, 8: T.read_uint_8}
SREADERS = {1: T.read_int_1, 2: T.read_int_2, 4: T.read_int_4, 8: T.read_int_8}
WRITERS = {1: T.uint_1, 2: T.uint_2, 3: T.uint_3, 4: T.uint_4, 6: T.uint_6, 8: T.uint_8}


def _opt(v):
    return "None" if v is None else f"(Some ({v[0]}, {v[1]}))"


def _optz(v):
    return "None" if v is None else f"(Some (({v[0]})%Z, {v[1]}))"


def _read(fn, d):
    r = io.BytesIO(d)
    try:
        v = fn(r)
    except struct.error:
        return None
    return v, len(d) - r.tell()


def boundary_values(k):
    top = 256 ** k
    vs = {0, 1, 127, 128, 255, top - 1, top // 2, top // 2 - 1, top // 2 + 1}
    for j in range(1, k):
        vs |= {256 ** j - 1, 256 ** j, 256 ** j + 1, 256 ** j + 255, 2 * 256 ** j - 1}
    # every byte position non-zero at once / one at a time
    vs.add(int.from_bytes(bytes(range(1, k + 1)), "little"))
    for j in range(k):
        vs.add(0xA5 << (8 * j))
    return sorted(v for v in vs if 0 <= v < top)


def cases(rng, n):
    out = []
    for k, fn in READERS.items():
        ins = [v.to_bytes(k, "little") for v in boundary_values(k)]
        ins += [bytes(rng.randrange(256) for _ in range(k)) for _ in range(n)]
        ins = [d + bytes(rng.randrange(256) for _ in range(rng.choice([0, 0, 1, 3]))) for d in ins]
        ins += [bytes(rng.randrange(256) for _ in range(j)) for j in range(k)]          # short reads
        for d in ins:
            out.append((f"read_uint_{k}", d, f"chk_read {k}%nat {L(d)} {_opt(_read(fn, d))}"))
    for k, fn in SREADERS.items():
        ins = [v.to_bytes(k, "little") for v in boundary_values(k)] + [bytes(rng.randrange(256) for _ in range(k)) for _ in range(n)]
        ins += [bytes(rng.randrange(256) for _ in range(j)) for j in range(k)]
        for d in ins:
            out.append((f"read_int_{k}", d, f"chk_sread {k}%nat {L(d)} {_optz(_read(fn, d))}"))
    for k, fn in WRITERS.items():
        for v in boundary_values(k) + [rng.randrange(256 ** k) for _ in range(n)]:
            out.append((f"uint_{k}", v, f"chk_write {k}%nat {v} {L(fn(v))}"))
    lens = [0, 1, 250, 251, 252, 253, 254, 255, 256, 65534, 65535, 65536, 65537, 70000, 131071, 131072, 131073, 200001,
            2 ** 24 - 1, 2 ** 24, 2 ** 24 + 1, 2 ** 32 - 1, 2 ** 32, 2 ** 40 + 5, 2 ** 63, 2 ** 64 - 1]
    lens += [rng.randrange(2 ** rng.choice([8, 16, 17, 20, 24, 33, 64])) for _ in range(n)]
    for v in lens:
        b = T.uint_len(v)
        out.append(("uint_len", v, f"chk_wlen {v} {L(b)}"))
        d = b + bytes(rng.randrange(256) for _ in range(rng.choice([0, 2])))
        out.append(("read_uint_len", d, f"chk_rlen {L(d)} {_opt(_read(T.read_uint_len, d))}"))
    for first in (0xFB, 0xFC, 0xFD, 0xFE, 0xFF):
        for j in range(0, 10):
            d = bytes([first]) + bytes(rng.randrange(256) for _ in range(j))
            out.append(("read_uint_len", d, f"chk_rlen {L(d)} {_opt(_read(T.read_uint_len, d))}"))
    out.append(("read_uint_len", b"", f"chk_rlen [] {_opt(_read(T.read_uint_len, b''))}"))
    for sl in (0, 1, 250, 251, 300):
        s = bytes(rng.randrange(256) for _ in range(sl))
        for d in (T.str_len(s), T.str_len(s) + b"xy", T.str_len(s)[:-1] if sl else b""):
            r = io.BytesIO(d)
            try:
                got = T.read_str_len(r)
                g = f"(Some ({L(got)}, {len(d) - r.tell()}))"
            except struct.error:
                g = "None"
            out.append(("read_str_len", d, f"chk_rstr {L(d)} {g}"))
    return out


def run(ctx, name, n):
    """-> (number of cases, disagreements [(function, input)], counts per function)"""
    cs = cases(ctx.rng, n)
    res = core.run_coq_terms(ctx, name, HEADER, [t for _, _, t in cs], shard=400)
    bad, kinds = [], {}
    for (fn, arg, _), ok in zip(cs, res):
        kinds[fn] = kinds.get(fn, 0) + 1
        if ok is not True:
            bad.append(dict(kind="types-reader-writer", function=fn, input=(list(arg) if isinstance(arg, bytes) else arg)))
    return len(cs), bad, kinds
