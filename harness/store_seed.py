"""store_seed.py <ID> <n> <worktree> <needs text> <caught-by text>: copies a confirmed seeded change into /verif/seeded/"""
import json, os, shutil, sys
pid, n, wt, needs, caught = sys.argv[1:6]
d = f"/verif/seeded/{pid}-{n}"
os.makedirs(d, exist_ok=True)
shutil.copy(os.path.join(wt, "patch.diff"), os.path.join(d, "patch.diff"))
demo = f"demo_{pid.lower()}.py"
shutil.copy(os.path.join(wt, demo), os.path.join(d, demo))
log = open("/tmp/seed_verify.log").read()
line = [l for l in log.splitlines() if l.startswith(pid + " ")]
meta = dict(property=pid, breaks=open(f"/tmp/props/{pid}.txt").read().splitlines()[0],
            needs_to_manifest=needs,
            confirmed=dict(what_i_ran=[f"harness/verify_seed.sh {pid} <scratch worktree>  (demo with / without the patch; pinned suite in a private network namespace against BASELINE.json stable_pass)",
                                       f"harness/seedtest.sh seeded/{pid}-{n}/patch.diff {pid}  (git -C /repo apply; ./check {pid} quick; git -C /repo checkout -- .)"],
                           result=line[-1] if line else "pending"),
            caught_by=caught, produced_by="independent sub-agent given only the property text and a scratch worktree")
json.dump(meta, open(os.path.join(d, "meta.json"), "w"), indent=1)
print("stored", d)
