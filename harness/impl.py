"""Deterministic in-process driver of the REAL mysql_mimic code (imported from VERIF_REPO, default /repo).

A private event loop is stepped one iteration at a time; a real asyncio.StreamReader is fed by the
harness; the writer is a fake that records writes, can be paused (drain() awaits a harness future),
can fail (drain() raises ConnectionResetError) and records close(); sessions, row sources and
identity providers are scripted; `mysql_mimic.utils.asyncio.sleep` awaits a harness future so that
the cooperative yield is a suspension point the harness owns.  Nothing in the repository is edited."""
from __future__ import annotations

import asyncio
import os
import sys
import types

import core  # noqa: F401  (puts REPO on sys.path)
import logging

logging.disable(logging.CRITICAL)

import mysql_mimic
import mysql_mimic.utils as MU
from mysql_mimic import MysqlServer
from mysql_mimic.control import LocalControl
from mysql_mimic.session import BaseSession, Session
from mysql_mimic.stream import MysqlStream
from mysql_mimic.variables import GlobalVariables, SessionVariables

assert os.path.realpath(mysql_mimic.__file__).startswith(os.path.realpath(core.REPO)), (
    "mysql_mimic was not imported from " + core.REPO)

_REAL_ASYNCIO = MU.asyncio


class Env:
    """Private loop + registry of the futures the code under test is blocked on."""

    def __init__(self, own_sleep=True):
        self.loop = asyncio.new_event_loop()
        self.pending = {}  # tag -> future
        self.log = []
        self.own_sleep = own_sleep
        if own_sleep:
            env = self

            async def sleep(delay, result=None):
                await env.fut(("sleep", env._current_conn()))
                return result

            MU.asyncio = types.SimpleNamespace(sleep=sleep)
        else:
            MU.asyncio = _REAL_ASYNCIO
        self._conn_of_task = {}
        self.cid_of = {}   # library connection id -> harness connection id

    def _current_conn(self):
        """harness id of the connection whose task is running (connection ids are mapped by cid_of)"""
        t = asyncio.current_task(self.loop)
        if t in self._conn_of_task:
            return self._conn_of_task[t]
        try:
            from mysql_mimic import context
            return self.cid_of.get(context.connection_id.get(), 0)
        except LookupError:
            return 0

    def fut(self, tag):
        f = self.loop.create_future()
        self.pending[tag] = f
        return f

    def settle(self, limit=100000):
        n = 0
        while self.loop._ready:
            self.loop.call_soon(self.loop.stop)
            self.loop.run_forever()
            n += 1
            if n > limit:
                raise RuntimeError("event loop does not quiesce")
        return n

    def resolve(self, tag, val=None, exc=None, settle=True):
        f = self.pending.pop(tag)
        if not f.done():
            if exc is not None:
                f.set_exception(exc)
            else:
                f.set_result(val)
        if settle:
            self.settle()

    def live(self):
        return [k for k, f in self.pending.items() if not f.done()]

    def close(self):
        MU.asyncio = _REAL_ASYNCIO
        try:
            for t in asyncio.all_tasks(self.loop):
                t.cancel()
            self.settle()
            self.loop.run_until_complete(self.loop.shutdown_asyncgens())
        except Exception:
            pass
        self.loop.close()


class FakeWriter:
    def __init__(self, env: Env, cid=0):
        self.env = env
        self.cid = cid
        self.data = bytearray()
        self.writes = []  # one entry per writer.write
        self._paused = False
        self._held = []   # what a transport that could not send everything at once keeps of the caller's buffers
        self.fail = False
        self.closed = False
        self.transport = None

    @property
    def paused(self):
        return self._paused

    @paused.setter
    def paused(self, value):
        self._paused = bool(value)
        if not self._paused:
            for v in self._held:
                v.release()
            self._held = []

    def write(self, b):
        self.writes.append(bytes(b))
        self.data += bytes(b)
        # asyncio's selector transport (CPython 3.12) does not copy: while the socket does not accept the data it keeps a
        # memoryview of the object it was given - a bytearray handed over must not be resized until it has been sent
        if self._paused and isinstance(b, bytearray):
            self._held.append(memoryview(b))

    async def drain(self):
        if self.fail:
            raise ConnectionResetError("socket failed")
        if self.paused:
            await self.env.fut(("drain", self.cid))
            if self.fail:
                raise ConnectionResetError("socket failed")

    def close(self):
        self.closed = True
        self.env.log.append(("writer_close", self.cid))

    async def wait_closed(self):
        # like asyncio.StreamWriter.wait_closed: re-raises the error the transport was lost with
        if self.fail:
            raise ConnectionResetError("socket failed")

    def is_closing(self):
        return self.closed

    def get_extra_info(self, *a, **k):
        return None


class LoggingControl(LocalControl):
    def __init__(self, env, server_id=1):
        super().__init__(server_id=server_id)
        self.env = env

    async def add(self, connection):
        cid = await super().add(connection)
        self.env.log.append(("ctl_add", cid))
        return cid

    async def remove(self, connection_id):
        self.env.log.append(("ctl_remove", connection_id))
        await super().remove(connection_id)


class Conn:
    """One server-side connection driven by the harness."""

    def __init__(self, env: Env, server: MysqlServer, cid=0):
        self.env = env
        self.cid = cid
        self.reader = asyncio.StreamReader(loop=env.loop)
        self.writer = FakeWriter(env, cid)
        self.task = env.loop.create_task(server._client_connected_cb(self.reader, self.writer))
        env._conn_of_task[self.task] = cid
        self._taken = 0

    def feed(self, data: bytes, settle=True):
        self.reader.feed_data(data)
        if settle:
            self.env.settle()

    def eof(self, settle=True):
        self.reader.feed_eof()
        if settle:
            self.env.settle()

    def take(self) -> bytes:
        """Bytes written since the previous take()."""
        out = bytes(self.writer.data[self._taken:])
        self._taken = len(self.writer.data)
        return out

    def blocked_on(self):
        if self.task.done():
            return "done"
        if self.reader._waiter is not None:
            return "read"
        for tag in self.env.live():
            if isinstance(tag, tuple) and len(tag) >= 2 and tag[1] == self.cid:
                return tag[0]
        return "unknown"

    def outcome(self):
        if not self.task.done():
            return "running"
        if self.task.cancelled():
            return "cancelled"
        e = self.task.exception()
        return "ok" if e is None else type(e).__name__


class ScriptSession(BaseSession):
    """BaseSession whose callbacks log and then either return a scripted value or await the harness."""

    def __init__(self, env: Env, cid, script=None):
        self.env = env
        self.cid = cid
        self.variables = SessionVariables(GlobalVariables())
        self.username = None
        self.database = None
        self.script = script or {}

    async def _cb(self, name, *args):
        self.env.log.append((name, self.cid) + args)
        mode = self.script.get(name, "return")
        if callable(mode):
            return await mode(self, *args)
        if mode == "wait":
            return await self.env.fut(("app", self.cid))
        if isinstance(mode, BaseException):
            raise mode
        return None

    async def init(self, connection):
        self.connection = connection
        return await self._cb("init")

    async def close(self):
        return await self._cb("close")

    async def reset(self):
        return await self._cb("reset")

    async def use(self, database):
        self.database = database
        return await self._cb("use", database)

    async def handle_query(self, sql, attrs):
        return await self._cb("query", sql, dict(attrs))


def make_server(env, session_factory, identity_provider=None, control=None, **kw):
    control = control or LoggingControl(env)
    return MysqlServer(session_factory=session_factory, control=control, identity_provider=identity_provider, **kw)


def run_stream_writes(writes, start_seq=0):
    """MysqlStream.write(payload, drain=flag) for each (payload, flag) in turn, then one drain(); returns raw bytes written."""
    env = Env(own_sleep=False)
    try:
        reader = asyncio.StreamReader(loop=env.loop)
        w = FakeWriter(env)
        stream = MysqlStream(reader, w)
        stream.seq.value = start_seq

        async def go():
            for p, d in writes:
                await stream.write(p, drain=d)
            await stream.drain()

        env.loop.run_until_complete(go())
        return bytes(w.data)
    finally:
        env.close()


def run_stream_reader(chunks, eof=True):
    """Feed `chunks` to a real MysqlStream.read loop; returns the list of deliveries after each chunk."""
    env = Env(own_sleep=False)
    try:
        reader = asyncio.StreamReader(loop=env.loop)
        w = FakeWriter(env)
        stream = MysqlStream(reader, w)
        out = []

        async def pump():
            while True:
                try:
                    out.append(("Payload", await stream.read()))
                except Exception as e:  # noqa
                    out.append((type(e).__name__,))
                    return

        t = env.loop.create_task(pump())
        env.settle()
        per_chunk = []
        for c in chunks:
            n = len(out)
            reader.feed_data(bytes(c))
            env.settle()
            per_chunk.append(out[n:])
        tail = None
        if eof:
            n = len(out)
            reader.feed_eof()
            env.settle()
            tail = out[n:]
        t.cancel()
        env.settle()
        return per_chunk, tail
    finally:
        env.close()


def run_stream_writer(payloads, start_seq=0, buffer_size=None):
    """MysqlStream.write for each payload in turn; returns raw bytes written."""
    env = Env(own_sleep=False)
    try:
        reader = asyncio.StreamReader(loop=env.loop)
        w = FakeWriter(env)
        stream = MysqlStream(reader, w) if buffer_size is None else MysqlStream(reader, w, buffer_size)
        stream.seq.value = start_seq

        async def go():
            for p in payloads:
                await stream.write(p)

        env.loop.run_until_complete(go())
        return bytes(w.data), stream.seq.value
    finally:
        env.close()
