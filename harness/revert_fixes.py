"""Self-test: put each repaired defect back (reverse patch of its fix commit) and run the property's quick check.
Usage: revert_fixes.py [commit ...]; prints one line per fix.  /repo must be clean; it is restored after every run."""
import json, os, subprocess, sys
HERE = os.path.dirname(os.path.dirname(os.path.abspath(__file__)))
kf = json.load(open(os.path.join(HERE, "known_findings.json")))["findings"]
fixed = [(f["commit"], f["property"], f["key"]) for f in kf if f["status"] == "fixed"]
want = set(sys.argv[1:])
seen = set()
for commit, prop, key in fixed:
    if want and commit not in want:
        continue
    if (commit, prop) in seen:
        continue
    seen.add((commit, prop))
    if subprocess.run("git -C /repo status --short | grep -q .", shell=True).returncode == 0:
        print("repo dirty"); sys.exit(2)
    patch = subprocess.run(["git", "-C", "/repo", "diff", commit, commit + "~1", "--", "mysql_mimic"], stdout=subprocess.PIPE).stdout
    p = subprocess.run(["git", "-C", "/repo", "apply", "--3way", "-"], input=patch, stdout=subprocess.PIPE, stderr=subprocess.STDOUT)
    if p.returncode != 0:
        subprocess.run("git -C /repo reset -q --hard", shell=True)      # (a failed 3-way apply leaves unmerged paths in the index)
        print(f"{prop} {commit} {key}: reverse patch does not apply on top of later fixes (skipped)")
        continue
    try:
        out = subprocess.run(["./check", prop, "quick"], cwd=HERE, stdout=subprocess.PIPE, stderr=subprocess.STDOUT, text=True, timeout=1500).stdout
    finally:
        subprocess.run("git -C /repo reset -q; git -C /repo checkout -- .", shell=True)
    v = [l for l in out.splitlines() if l.startswith("VIOLATION")]
    verdict = "MISSED" if not v else ("caught (no concrete input)" if all(l.endswith("no-failing-input-found") for l in v) else "caught with witness")
    print(f"{prop} {commit} {key}: {verdict}", flush=True)
subprocess.run("git -C %s checkout -- evidence" % HERE, shell=True)   # evidence of patched-tree runs is not kept
