"""Packet-level helpers shared by C06 / C07 / C17: client-side parameter encoding (from the protocol
documentation), conversion of implementation results and of Coq model results to one canonical form."""
from __future__ import annotations

import math
import struct

import core
import client as cl

from mysql_mimic import packets
from mysql_mimic.charset import CharacterSet
from mysql_mimic.errors import MysqlError
from mysql_mimic.prepared import PreparedStatement
from mysql_mimic.types import Capabilities

QA = Capabilities.CLIENT_QUERY_ATTRIBUTES
BASE = Capabilities.CLIENT_PROTOCOL_41 | Capabilities.CLIENT_SECURE_CONNECTION | Capabilities.CLIENT_PLUGIN_AUTH

T_TINY, T_SHORT, T_LONG, T_FLOAT, T_DOUBLE, T_NULL, T_LONGLONG, T_INT24, T_YEAR = 1, 2, 3, 4, 5, 6, 8, 9, 13
T_VARCHAR, T_BOOL, T_TINY_BLOB, T_MEDIUM_BLOB, T_LONG_BLOB, T_BLOB, T_VAR_STRING, T_STRING = 15, 244, 249, 250, 251, 252, 253, 254
STRING_TYPES = [15, 249, 250, 251, 252, 253, 254]
INT_WIDTH = {1: 1, 244: 1, 2: 2, 13: 2, 3: 4, 9: 4, 8: 8}

HEADER = """From Coq Require Import List NArith ZArith.
From MM Require Import Lib.Bytes Lib.Decimal Model.Parse Model.Placeholders Model.Exec.
Import ListNotations. Open Scope N_scope.
"""


class P:
    """One client-side parameter: name (bytes), type code, unsigned flag, value.
    value: None | int | bytes (string types) | ('f32', raw4) | ('f64', raw8)"""

    def __init__(self, name, typ, unsigned, value):
        self.name, self.typ, self.unsigned, self.value = name, typ, unsigned, value
        self.long_data = False  # value supplied by COM_STMT_SEND_LONG_DATA: nothing inline

    def is_null(self):
        return self.value is None

    def enc_value(self):
        v = self.value
        if v is None or self.long_data:
            return b""
        if isinstance(v, int):
            k = INT_WIDTH[self.typ]
            u = self.unsigned or self.typ == 244
            return int(v).to_bytes(k, "little", signed=not u)
        if isinstance(v, bytes):
            return cl.lenstr(v)
        return v[1]

    def coq(self):
        v = self.value
        if v is None:
            cv = "PNull"
        elif isinstance(v, int):
            cv = f"(PInt ({v})%Z)"
        elif isinstance(v, bytes):
            cv = f"(PStr {core.coq_N_list(v)})"
        else:
            cv = f"({'PF32' if v[0] == 'f32' else 'PF64'} {core.coq_N_list(v[1])})"
        return f"(mk_param {core.coq_N_list(self.name)} {self.typ} {core.coq_bool(self.unsigned)} {cv})"

    def canon(self, qa):
        """(name, value) in the canonical form used for comparison."""
        v = self.value
        if isinstance(v, tuple):
            v = (v[0], bytes(v[1]))
        return (bytes(self.name) if qa else b"", v)

    def __repr__(self):
        return f"P({self.name!r},{self.typ},{self.unsigned},{self.value!r})"


def encode_params(ps, qa):
    if not ps:
        return b""
    n = len(ps)
    bm = bytearray((n + 7) // 8)
    for i, p in enumerate(ps):
        if p.is_null():
            bm[i // 8] |= 1 << (i % 8)
    out = bytes(bm) + b"\x01"
    for p in ps:
        out += bytes([p.typ, 0x80 if p.unsigned else 0])
        if qa:
            out += cl.lenstr(p.name)
    for p in ps:
        out += p.enc_value()
    return out


def encode_com_query(attrs, sql: bytes):
    return cl.lenenc(len(attrs)) + b"\x01" + encode_params(attrs, True) + sql


def encode_execute(qa, stmt_id, flags, positional, attrs):
    ps = list(positional) + list(attrs)
    out = struct.pack("<IBI", stmt_id, flags, 1)
    if qa:
        out += cl.lenenc(len(ps))
    return out + encode_params(ps, qa)


def gen_param(rng, named=True, hostile=True):
    kind = rng.choice(["int", "int", "str", "str", "null", "f32", "f64"])
    name = b""
    if named:
        name = rng.choice([b"", b"a", b"attr", "n\u00e9".encode("latin1"), bytes(rng.randrange(1, 256) for _ in range(rng.randint(1, 5)))])
    if kind == "null":
        return P(name, rng.choice([T_NULL, T_LONG, T_VAR_STRING, T_DOUBLE]), rng.random() < 0.3, None)
    if kind == "int":
        t = rng.choice([T_TINY, T_BOOL, T_SHORT, T_YEAR, T_LONG, T_INT24, T_LONGLONG])
        u = rng.random() < 0.5
        k = INT_WIDTH[t]
        uu = u or t == T_BOOL
        lo, hi = (0, 256 ** k - 1) if uu else (-(256 ** k) // 2, 256 ** k // 2 - 1)
        v = rng.choice([lo, hi, 0, 1, -1 if lo < 0 else 1, lo + 1, hi - 1, rng.randint(lo, hi)])
        return P(name, t, u, v)
    if kind == "str":
        t = rng.choice(STRING_TYPES)
        alpha = b"ab'\\?\"`%_ \n\x00;-1g<0>" if hostile else b"abc 123"
        n = rng.choice([0, 1, 2, 3, 5, 9, 20])
        v = bytes(rng.choice(alpha) for _ in range(n))
        if hostile and rng.random() < 0.1:
            v = v + bytes(rng.randrange(256) for _ in range(rng.randint(1, 4)))
        if rng.random() < 0.03:
            v = b"x" * rng.choice([250, 251, 252, 300])
        return P(name, t, rng.random() < 0.2, v)
    if kind == "f32":
        f = rng.choice([0.0, 1.5, -2.25, 1e10, -1e-3, 3.0, 123456.0])
        return P(name, T_FLOAT, False, ("f32", struct.pack("<f", f)))
    f = rng.choice([0.0, 1.5, -2.25, 1e100, -1e-300, 0.1, 2.0 ** 53, 1 / 3])
    return P(name, T_DOUBLE, False, ("f64", struct.pack("<d", f)))


# ------------------------------------------------------------------ canonical forms
def err_class(e: BaseException):
    if isinstance(e, MysqlError):
        return ("MysqlErr", int(e.code))
    if isinstance(e, struct.error):
        return "StructErr"
    if isinstance(e, UnicodeDecodeError):
        return "DecodeErr"
    if isinstance(e, IndexError):
        return "IndexErr"
    if isinstance(e, KeyError):
        return "KeyErr"
    if isinstance(e, AssertionError):
        return "AssertErr"
    if isinstance(e, OverflowError):
        return "OverflowErr"
    if isinstance(e, ValueError):
        return "ValueErr"
    return type(e).__name__


def canon_impl_value(v, charset="latin1"):
    if v is None or isinstance(v, int) and not isinstance(v, bool):
        return v
    if isinstance(v, str):
        return v.encode(charset, "backslashreplace")
    if isinstance(v, float):
        return ("float", v)
    return ("other", repr(v))


def canon_model_value(v):
    """parsed Coq pval -> canonical"""
    if v == "PNull":
        return None
    if v[0] == "PInt":
        return v[1]
    if v[0] == "PStr":
        return bytes(v[1])
    if v[0] == "PF32":
        return ("float", struct.unpack("<f", bytes(v[1]))[0])
    if v[0] == "PF64":
        return ("float", struct.unpack("<d", bytes(v[1]))[0])
    raise ValueError(v)


def same_value(a, b):
    if isinstance(a, tuple) and isinstance(b, tuple) and a[0] == b[0] == "float":
        return a[1] == b[1] or (math.isnan(a[1]) and math.isnan(b[1]))
    return a == b


def same_pairs(a, b):
    return len(a) == len(b) and all(x[0] == y[0] and same_value(x[1], y[1]) for x, y in zip(a, b))


def canon_model_result(r, conv):
    """('Ok', x) -> ('Ok', conv(x)) ; ('Err', e) -> ('Err', class)"""
    if r[0] == "Ok":
        return ("Ok", conv(r[1]))
    e = r[1]
    if isinstance(e, tuple) and e[0] == "MysqlErr":
        return ("Err", ("MysqlErr", e[1]))
    return ("Err", e)


def impl_parse_com_query(data: bytes, qa: bool, charset=CharacterSet.latin1):
    caps = BASE | (QA if qa else 0)
    try:
        r = packets.parse_com_query(capabilities=caps, client_charset=charset, data=data)
    except Exception as e:  # noqa
        return ("Err", err_class(e))
    attrs = [(k.encode(charset.codec, 'backslashreplace'), canon_impl_value(v, charset.codec)) for k, v in r.query_attrs.items()]
    return ("Ok", (r.sql.encode(charset.codec), attrs))


def model_com_query_conv(x):
    sql, attrs = x
    return (bytes(sql), [(bytes(k), canon_model_value(v)) for k, v in attrs])


def impl_execute(data: bytes, qa: bool, stmts: dict, charset=CharacterSet.latin1):
    """stmts: id -> (sql str, num_params, buffers dict|None).  Returns canonical result."""
    caps = BASE | (QA if qa else 0)
    table = {i: PreparedStatement(stmt_id=i, sql=s, num_params=n,
                                  param_buffers=({k: bytearray(v) for k, v in b.items()} if b is not None else None))
             for i, (s, n, b) in stmts.items()}

    def get_stmt(i):
        if i in table:
            return table[i]
        raise MysqlError(f"Unknown statement: {i}", 1106)

    try:
        r = packets.parse_com_stmt_execute(capabilities=caps, client_charset=charset, data=data, get_stmt=get_stmt)
    except Exception as e:  # noqa
        return ("Err", err_class(e))
    attrs = [(k.encode(charset.codec, 'backslashreplace'), canon_impl_value(v, charset.codec)) for k, v in r.query_attrs.items()]
    return ("Ok", (r.sql.encode(charset.codec), attrs, bool(r.use_cursor)))


def model_execute_conv(x):
    sql, attrs, cur = x
    return (bytes(sql), [(bytes(k), canon_model_value(v)) for k, v in attrs], cur)


def float_tokens(ps):
    """assoc list for Exec.ftok: raw bytes -> str(float) as code points"""
    items = []
    for p in ps:
        if isinstance(p.value, tuple):
            raw = p.value[1]
            f = struct.unpack("<f" if p.value[0] == "f32" else "<d", raw)[0]
            items.append(f"({core.coq_N_list(raw)}, {core.coq_N_list(str(f).encode('latin1'))})")
    return core.coq_list(items)


def coq_stmt_lookup(stmts):
    """Coq term for the lookup function of a statement table {id: (sql bytes, nparams, buffers {i: bytes})}"""
    t = "(fun _ : N => None)"
    for i, (sql, n, bufs) in stmts.items():
        b = core.coq_list([f"({k}, {core.coq_N_list(v)})" for k, v in (bufs or {}).items()])
        t = f"(fun i : N => if i =? {i} then Some (mk_stmt {core.coq_N_list(sql)} {n} {b}) else {t} i)"
    return t


def same_result(a, b):
    if a[0] != b[0]:
        return False
    if a[0] == "Err":
        return a[1] == b[1]
    x, y = a[1], b[1]
    if len(x) != len(y) or x[0] != y[0]:
        return False
    if not same_pairs(x[1], y[1]):
        return False
    return x[2:] == y[2:]
