"""Real-socket probes (own interpreter, the real event loop, loopback TCP, optionally the TLS upgrade): what the in-process
driver with its fake transport cannot see - partial writes and the transport's own buffer, connection_lost reaching the stream
protocol, reader.exception(), wait_closed() re-raising, transport.get_write_buffer_size().  Usage: realsock.py <scenario>...
Prints one line '@@' + JSON: {scenario: result}.  Scenarios: slow_reader, reset, kill_after_reset, vanish."""
import asyncio, json, os, socket, ssl, struct, sys, time

REPO = os.environ.get("VERIF_REPO", "/repo")
sys.path.insert(0, REPO)
sys.path.insert(0, os.path.dirname(os.path.abspath(__file__)))
import logging
logging.disable(logging.CRITICAL)
from mysql_mimic import MysqlServer, Session  # noqa: E402
from mysql_mimic.control import LocalControl, KillKind  # noqa: E402
import client as cl  # noqa: E402

CERT = os.path.join(REPO, "tests/fixtures/certificate.pem")
KEY = os.path.join(REPO, "tests/fixtures/key.pem")
NROWS = 12000
STATE = dict(pulled=0, inits=0, closes=0, gate=None, in_app=0)


def row(i):
    return ("r%07d-" % i) + "x" * 990


class S(Session):
    async def init(self, connection):
        await super().init(connection)
        STATE["inits"] += 1

    async def close(self):
        STATE["closes"] += 1
        await super().close()

    async def query(self, expression, sql, attrs):
        if "endless" in sql:
            async def rows():
                i = 0
                while True:
                    STATE["pulled"] += 1
                    yield (row(i),)
                    i += 1
            return rows(), ["c"]
        if "wait" in sql:
            STATE["in_app"] += 1
            await STATE["gate"].wait()
            return [(1,)], ["c"]
        return [(row(i),) for i in range(NROWS)], ["c"]


def connect(port, tls):
    s = socket.create_connection(("127.0.0.1", port))
    s.settimeout(8)
    s.recv(4096)
    if tls:
        ctx = ssl.SSLContext(ssl.PROTOCOL_TLS_CLIENT)
        ctx.check_hostname = False
        ctx.verify_mode = ssl.CERT_NONE
        s.sendall(cl.frame(cl.ssl_request(), 1))
        time.sleep(0.3)                      # (the known hand-over race of C04 is not this probe's subject)
        s = ctx.wrap_socket(s)
        raw = s                              # (closing the SSLSocket without unwrap() closes the TCP connection under TLS)
        s.sendall(cl.frame(cl.handshake_response(user=b"u", caps=cl.BASE_CAPS | cl.CLIENT_SSL), 2))
    else:
        raw = s
        s.sendall(cl.frame(cl.handshake_response(user=b"u"), 1))
    s.recv(4096)
    return s, raw


def read_packets(s, stop):
    """[(seq, payload)] until stop(payload, index) is true"""
    buf, out = b"", []
    while True:
        while len(buf) < 4 or len(buf) < 4 + int.from_bytes(buf[:3], "little"):
            chunk = s.recv(1 << 16)
            if not chunk:
                return out, "closed"
            buf += chunk
        ln = int.from_bytes(buf[:3], "little")
        out.append((buf[3], buf[4:4 + ln]))
        buf = buf[4 + ln:]
        if stop(out[-1][1], len(out)):
            return out, "ok"


def rst(sock):
    sock.setsockopt(socket.SOL_SOCKET, socket.SO_LINGER, struct.pack("ii", 1, 0))
    sock.close()


def c_slow_reader(port, tls, binary):
    try:
        s, _raw = connect(port, tls)
        if binary:
            s.sendall(cl.frame(bytes([cl.COM_STMT_PREPARE]) + b"SELECT c FROM big", 0))
            pk, _ = read_packets(s, lambda p, n: True)
            sid = pk[0][1][1:5]
            s.sendall(cl.frame(bytes([cl.COM_STMT_EXECUTE]) + sid + b"\x00" + (1).to_bytes(4, "little"), 0))
        else:
            s.sendall(cl.frame(bytes([cl.COM_QUERY]) + b"SELECT c FROM big", 0))
        time.sleep(1.0)                      # the client is slow: the kernel buffers fill, the transport keeps a backlog
        pk, how = read_packets(s, lambda p, n: n > 3 and p[:1] == b"\xfe" and len(p) < 9)
        if how != "ok":
            return f"connection closed after {len(pk)} packets of the result"
        rows = [p for _, p in pk[3:-1]]
        if len(rows) != NROWS:
            return f"{len(rows)} rows instead of {NROWS}"
        for i, p in enumerate(rows):
            want = row(i).encode()
            if want not in p or len(p) > len(want) + 6:
                return f"row {i} does not decode to what the application returned: {p[:24]!r}..."
        seqs = [q for q, _ in pk]
        if seqs != [(1 + i) % 256 for i in range(len(pk))]:
            return "sequence ids of the result are not consecutive"
        s.sendall(cl.frame(bytes([cl.COM_PING]), 0))
        pg, _ = read_packets(s, lambda p, n: True)
        if not pg or pg[0][1][:1] != b"\x00" or pg[0][0] != 1:
            return f"PING after the result answered {pg[:1]!r}"
        s.close()
        return "ok"
    except Exception as e:  # noqa
        return f"client failed: {type(e).__name__}: {e}"[:160]


async def settle(cond, timeout=3.0):
    t0 = time.time()
    while time.time() - t0 < timeout:
        if cond():
            return True
        await asyncio.sleep(0.05)
    return cond()


async def main(scenarios):
    sc = ssl.SSLContext(ssl.PROTOCOL_TLS_SERVER)
    sc.load_cert_chain(CERT, KEY)
    ctl = LocalControl(server_id=5)
    srv = MysqlServer(session_factory=S, ssl=sc, control=ctl)
    await srv.start_server(port=0, host="127.0.0.1")
    port = srv.sockets()[0].getsockname()[1]
    loop = asyncio.get_running_loop()
    STATE["gate"] = asyncio.Event()
    res = {}
    run = lambda fn, *a: loop.run_in_executor(None, fn, *a)   # noqa: E731

    if "slow_reader" in scenarios:
        for tls in (False, True):
            for binary in (False, True):
                res[f"slow_reader/{'tls' if tls else 'plain'}/{'binary' if binary else 'text'}"] = await run(c_slow_reader, port, tls, binary)
        # the same behind a small kernel send buffer (a slow or distant link): every write of the result meets a backlog
        lsock = socket.socket()
        lsock.setsockopt(socket.SOL_SOCKET, socket.SO_SNDBUF, 8192)
        lsock.bind(("127.0.0.1", 0))
        lsock.listen(8)
        srv2 = MysqlServer(session_factory=S, control=ctl)
        await srv2.start_server(sock=lsock, port=None, host=None)
        for binary in (False, True):
            res[f"slow_reader/small-send-buffer/{'binary' if binary else 'text'}"] = await run(c_slow_reader, lsock.getsockname()[1], False, binary)
        srv2.close()

    if "reset" in scenarios:
        for tls in (False, True):
            for when in ("idle", "in-application"):
                base = (STATE["inits"], STATE["closes"])

                def client():
                    s, raw = connect(port, tls)
                    if when != "idle":
                        s.sendall(cl.frame(bytes([cl.COM_QUERY]) + b"SELECT c FROM wait", 0))
                        time.sleep(0.3)
                    rst(raw)
                try:
                    await run(client)
                    await asyncio.sleep(0.3)
                    STATE["gate"].set(); await asyncio.sleep(0.1); STATE["gate"].clear()
                    ok = await settle(lambda: not ctl._connections and STATE["closes"] - base[1] == 1)
                    res[f"reset/{'tls' if tls else 'plain'}/{when}"] = "ok" if ok else (
                        f"after the client reset the connection: registry holds {len(ctl._connections)} connection(s), "
                        f"sessions initialised {STATE['inits'] - base[0]} closed {STATE['closes'] - base[1]}")
                except Exception as e:  # noqa
                    res[f"reset/{'tls' if tls else 'plain'}/{when}"] = f"probe failed: {type(e).__name__}: {e}"[:120]
                ctl._connections.clear()

    if "kill_after_reset" in scenarios:
        base = (STATE["inits"], STATE["closes"], STATE["in_app"])
        holder = {}

        def client():
            s, raw = connect(port, False)
            s.sendall(cl.frame(bytes([cl.COM_QUERY]) + b"SELECT c FROM wait", 0))
            holder["raw"] = raw
        await run(client)
        await settle(lambda: STATE["in_app"] > base[2])
        ids = list(ctl._connections)
        rst(holder["raw"])
        await asyncio.sleep(0.4)
        for i in ids:
            await ctl.kill(i, KillKind.CONNECTION)
        ok = await settle(lambda: not ctl._connections and STATE["closes"] - base[1] == 1)
        res["kill_after_reset"] = "ok" if ok else (f"KILL CONNECTION of a connection whose client had reset it while its statement was inside the application: "
                                                   f"registry holds {len(ctl._connections)}, session closed {STATE['closes'] - base[1]} time(s)")
        STATE["gate"].set(); await asyncio.sleep(0.1); STATE["gate"].clear()
        ctl._connections.clear()

    if "vanish" in scenarios:
        for tls in (False, True):
            base = STATE["closes"]

            def client():
                s, raw = connect(port, tls)
                s.sendall(cl.frame(bytes([cl.COM_QUERY]) + b"SELECT c FROM endless", 0))
                got = 0
                while got < 6_000_000:       # the client reads fast: the server streams freely, not blocked in drain()
                    got += len(s.recv(1 << 16))
                raw.close()
            try:
                STATE["pulled"] = 0
                await run(client)
                await asyncio.sleep(0.7)
                a = STATE["pulled"]
                await asyncio.sleep(0.5)
                b = STATE["pulled"]
                closed = await settle(lambda: STATE["closes"] - base == 1, 1.0)
                res[f"vanish/{'tls' if tls else 'plain'}"] = "ok" if (a == b and closed) else (
                    f"the client went away in the middle of an endless result: {b - a} more rows pulled in the following 0.5 s, session closed {STATE['closes'] - base} time(s)")
            except Exception as e:  # noqa
                res[f"vanish/{'tls' if tls else 'plain'}"] = f"probe failed: {type(e).__name__}: {e}"[:120]
            for c_ in list(ctl._connections.values()):
                c_.kill(KillKind.CONNECTION)
            await asyncio.sleep(0.2)
            ctl._connections.clear()

    srv.close()
    print("@@" + json.dumps(res))
    os._exit(0)

asyncio.run(main(sys.argv[1:] or ["slow_reader", "reset", "kill_after_reset", "vanish"]))
