"""Writes MANIFEST.json from the table below (kept next to the checks so it stays current)."""
import json, os
HERE = os.path.dirname(os.path.dirname(os.path.abspath(__file__)))

CLAIMED = {
 "C04": dict(
   text="Coq theorems over the framing model (Model/Wire.v): write/read round trip for every payload and every M in (0,2^24), packet "
        "lengths, and segmentation independence of the incremental reader for every arrival history (induction over the chunk list); "
        "constants and the header-fetch method are regenerated from stream.py on every run; model tied to the code by byte-exact "
        "correspondence runs on the real MysqlStream and by the whole-server conversation under every cut.",
   design="6/C04",
   note="Trusted: Coq kernel, translator, correspondence harness, asyncio.StreamReader semantics as modelled (hmode), fake writer. "
        "TLS record processing is the ssl module's; the TLS hand-over is probed over loopback sockets, open finding tls-hello-with-sslrequest.",
   technique="Coq proof (induction over arrival histories) + translator facts + vm_compute correspondence"),
 "C18": dict(
   text="Coq theorems over the registry model (Model/ConnId.v) for every sequence width W>0 and prefix: a fresh id exists whenever "
        "fewer than W connections are live (the search loop provably terminates within |live|+1 steps), the invariant 'pairwise "
        "distinct, all with the configured prefix' holds after every add/remove history (induction over the op list), a full registry "
        "refuses and recovers after any removal, ids are 32-bit with upper half server_id mod 2^16; widths, the server-id default rule "
        "and the function skeletons are regenerated from control.py/utils.py/server.py; op-by-op correspondence with LocalControl.",
   design="6/C18",
   note="Trusted: Coq kernel, translator, correspondence harness. random.randint for an unconfigured server id is only range-checked; "
        "the id seen in the handshake / CONNECTION_ID() / KILL is checked at the wire level by the harness (test, not theorem).",
   technique="Coq proof (invariant by induction over add/remove histories, pigeonhole for termination) + translator facts + vm_compute correspondence"),
 "C06": dict(
   text="Coq theorems over code points: on ANY text the left-to-right placeholder scanner flags one position per character and only "
        "question marks; a literal built from ANY character sequence lexes (MySQL string-literal lexer as specification) to exactly that "
        "sequence and ends where the builder ended it; on the template grammar - quoted segments holding any characters but their own "
        "quote character, the other quote characters and backslash escapes included - the recognised placeholders are exactly the holes "
        "and interpolation equals filling the holes in order with everything else byte-identical; binary parameter decoding is the "
        "inverse of the client-side encoding for every well-formed parameter list; over whole histories of one connection the long data "
        "bound by an execution is exactly what was sent for that statement since its last use. Function shapes regenerated from "
        "prepared.py/packets.py/connection.py; byte-exact correspondence with parse_com_stmt_execute, the wire and histories of "
        "statement commands on one real connection.",
   design="6/C06",
   note="Trusted: Coq kernel, translator, harness; text decoding (latin1 in the byte-exact runs) and repr(float) are outside the model; "
        "lex_literal is my reading of MySQL's lexer, cross-checked against sqlglot's tokenizer on every generated literal.",
   technique="Coq proof (structural induction over texts/templates/parameter lists) + translator facts + vm_compute correspondence"),
 "C17": dict(
   text="Coq theorems over the packet parsers (Model/Parse.v): for every attribute list of well-formed parameters and every SQL byte "
        "string parse_com_query(encode_com_query attrs sql) = (sql, dict attrs); without the capability every payload is returned "
        "untouched as SQL; COM_STMT_EXECUTE with m positional parameters and any attributes yields exactly those m values and that "
        "attribute dict (NULL bitmap proved for every count). Correspondence with the real parsers on generated packets and the wire.",
   design="6/C17",
   note="Trusted: Coq kernel, translator, harness; struct IEEE unpacking and text decoding are CPython's (latin1 = identity in the runs).",
   technique="Coq proof (round-trip by induction over the parameter list, bitmap lemma) + translator facts + vm_compute correspondence"),
 "C13": dict(
   text="Coq theorems over Model/Route.v with the middleware list and catalog database names regenerated from session.py / "
        "constants.py: the ordered chain computes the routing specification for every statement (built-in kinds and FROM-less SELECTs "
        "-> library; SELECT-like statements whose tables all resolve to catalog databases -> catalog executor; everything else -> "
        "application) and only USE changes the default database; for EVERY statement list and default database handle_query yields "
        "exactly the specified application calls, in textual order, each once, each with the database selected before it, and the last "
        "statement's result (induction over the list); built-ins never reach the application; after any history of handshake / "
        "COM_INIT_DB / USE / COM_CHANGE_USER / queries the default database is the one the client selected last. Tie: labelled "
        "statement grammar through the real connection (COM_QUERY and prepare/execute, query attributes), application-call log and "
        "results against labels and model.",
   design="6/C13",
   note="Open finding show-set-command-fallback-reaches-application (SHOW / SET spellings sqlglot parses as a generic Command). "
        "Trusted: Coq kernel, translator, harness; SQL text -> (kind, tables) is sqlglot's parser + utils.find_tables (exercised on "
        "every generated statement, not modelled). DATABASE()/VERSION() are not generated: sqlglot 30 parses them into nodes the "
        "library's function table does not know (pre-existing failures of the pinned suite).",
   technique="Coq proof (case analysis over the chain, induction over statement lists and connection histories) + translator facts + vm_compute correspondence"),
 "C14": dict(
   text="Coq theorems over Model/Vars.v instantiated with the regenerated schema (SYSTEM_VARIABLES), validators, character-set tables "
        "and transaction characteristics: read-your-writes with the coercion of the variable's type and nothing else moving; DEFAULT / "
        "NULL restore the default; unknown names and read-only variables are refused; NO sequence of client statements (SET in any "
        "form, hints, reads) changes a read-only variable (induction over the op list); every stored value is the default or a valid "
        "value of its type after any history; a SET_VAR hint - any names, values, nesting, outcome of the statement, including the "
        "library's double activation of the hint middleware - leaves every variable reading as before (c14_hint_is_scoped, for every "
        "reachable store); after any history the time zone parses and the connection's character sets exist; accepted time zones are "
        "offsets below one day. Tie: programs in every accepted spelling through the real Session with every variable read back "
        "after every statement, compared with the model; NOW()/CURDATE()/CURTIME() under a frozen clock; handshake version.",
   design="6/C14",
   note="Trusted: Coq kernel, translator, harness; SQL text -> statement structure is sqlglot + setitem_kind/expression_to_value "
        "(exercised by every spelling, not modelled); strftime/datetime.timezone are CPython's. The coercion is the code's "
        "(bool('OFF') is True for a QUOTED 'OFF'): recorded as an observation in the evidence, the property fixes no coercion function.",
   technique="Coq proof (invariants by induction over statement histories, pointwise restore argument for hints) + translator facts + vm_compute correspondence"),
 "C15": dict(
   text="Coq theorems over Model/Charset.v on top of the variable store, instantiated with the regenerated schema and character-set "
        "/ collation tables: for every history of commands - handshake in any collation, SET NAMES / SET CHARACTER SET / assignments to "
        "the two variables in every form, statements the server refuses, hinted statements, reads, text commands, COM_CHANGE_USER - the "
        "server's client / results character sets equal what a conforming client (one that updates its belief only on OK) believes "
        "(induction over the command list, with well-typedness of the store as auxiliary invariant); hence for ANY codecs that round-trip "
        "representable strings, text arrives unchanged in both directions; a refused statement switches nothing; the text of command k "
        "is decoded with the state before command k. Table facts (every collation belongs to a catalogue character set, defaults map "
        "back, ids unique) by computation over the regenerated tables. Tie: codecs against an independently written MySQL->codec "
        "table over each repertoire; histories on the real connection with a reference client, compared with the model.",
   design="6/C15",
   note="Trusted: Coq kernel, translator, harness; the codecs are CPython's (parameters of the theorem). MySQL's latin1 is cp1252 "
        "while library and reference use ISO-8859-1: the 27 differing code points are not sampled (observation in the evidence). "
        "utf16/utf32/ucs2 occur as column / results character sets only.",
   technique="Coq proof (simulation between the connection and a reference client, by induction over command histories) + translator facts + vm_compute correspondence"),
 "C16": dict(
   text="Coq theorems: the regular expression built from a LIKE pattern (Model/Like.v, a regex AST with a denotational match "
        "relation) matches exactly the strings SQL LIKE matches, for every pattern and string, and a pattern without wildcards matches "
        "only itself; the column listing derived from a nested mapping (Model/Catalog.v) is complete and sound for every mapping, "
        "keeps declaration order, SHOW COLUMNS is exactly the filter by table/database/LIKE, and TABLES / SCHEMATA list every "
        "declared table / database exactly once (NoDup + membership both ways). Function bodies of schema.py/session.py regenerated as "
        "facts. Tie: LIKE exhaustively over short patterns x names on like_to_regex and on SHOW VARIABLES LIKE, catalog queries on random "
        "depth-2/3/4 mappings against the model, INFORMATION_SCHEMA.COLUMNS exactly-once, COM_FIELD_LIST at the wire.",
   design="6/C16",
   note="Trusted: Coq kernel, translator, harness; Python re as the regex engine (modelled by the denotational match relation), "
        "sqlglot's executor evaluating the info-schema queries (exercised by the correspondence, not modelled). Open finding "
        "declared-empty-entry-not-listed: a database declared without tables / a table declared without columns is listed nowhere "
        "(the model, built from the declared columns like the code, says the same: the oracle is the declaration itself).",
   technique="Coq proof (induction over patterns / nested mappings) + translator facts + vm_compute correspondence"),
 "C07": dict(
   text="Coq theorems: every packet parser of the model (COM_QUERY with attributes, COM_STMT_EXECUTE, handshake response, "
        "COM_CHANGE_USER, connect attributes, parameter blocks) is total on every byte string with fuel = packet length + 1 - i.e. "
        "each loop ends within a number of iterations linear in the packet - and the NUL-terminated reader is structural; the shapes "
        "of the loops are regenerated from types.py/packets.py/prepared.py.  Tie: every truncation and field mutation of valid packets "
        "through the real parsers vs the model (result class and fields) under a watchdog, scaling probes of every variable-length "
        "field, and hostile packets on a live server (one ERR and in step, or close; witness connection served; registry released).",
   design="6/C07",
   note="Partial: the connection-level half (one ERR / close) is checked on the implementation here and proved over the connection "
        "machine in C03/C10; work inside sqlglot and the codecs is not bounded by this proof.",
   technique="Coq proof (fuel-exclusion lemmas by induction on fuel) + translator facts + vm_compute correspondence + watchdog/scaling probes"),
 "C01": dict(
   text="Connection machine Model/Conn.v (lock-step validated against the real Connection at suspension-point granularity). Proved "
        "for EVERY event list by plan-aware invariants (Proofs/ConnInv2.v, C01Proofs.v): on a fresh connection, while no verdict is "
        "Success - any round trips, refusals, failures, truncated / mis-sequenced replies, disconnects, socket failures, kills, early "
        "payloads - the session receives nothing but the user lookup and the client nothing but greeting / auth requests / ERR "
        "(c01_nothing_before_success); from ANY state waiting for a command (or dispatching a queued one) a COM_CHANGE_USER whose "
        "exchange contains no Success verdict is never followed by a served call again (c01_change_user_without_success, "
        "c01_queued_...). Also: refusals finish the connection for every continuation (finite prefix families). Tie: skeletons "
        "regenerated; random walks and scripted exchanges with scripted providers / plugins replayed on the model; oracle on the "
        "implementation: nothing but ERR / close after an exchange that ended in ERR.",
   design="6/C01",
   note="The two general theorems are about the model; the model is tied to the code by the lock-step runs and body facts. "
        "Plugins are arbitrary decision sequences (C02 decides what the built-in plugins decide). Fuel: see DESIGN 11.",
   technique="Coq proof (plan-aware invariants lifted through throw / exec_op / end_plan / run / step, induction over event lists) + translator facts + lock-step correspondence"),
 "C03": dict(
   text="Proved: for every column count, row list and DEPRECATE_EOF setting the packets written by the handler plans of Model/Conn.v "
        "(text result set, binary result set, cursor open, prepare block, fetch, field list) are accepted by the protocol grammar "
        "Model/Resp.v (written from the protocol documentation); a response cut at ANY point and completed by one ERR is accepted; "
        "nothing can follow a complete response; the no-reply commands write nothing. Tie: lock-step replay of random command "
        "programs on the model, and every implementation response is run through the grammar inside Coq.",
   design="6/C03",
   note="Partial: the composition 'between two reads the machine emits exactly the plan packets plus at most one ERR' is validated by the "
        "lock-step runs, not yet a theorem over all event lists. Packet contents beyond kind/flags/counts are C05/C16.",
   technique="Coq proof (induction over column/row lists, automaton sink-state argument) + translator facts + lock-step correspondence"),
 "C09": dict(
   text="Proved for EVERY state of Model/Conn.v: KILL QUERY with no command in progress (idle, connection phase, shutdown, "
        "re-authentication), from the connection's own callback, or after a pending KILL CONNECTION is the identity; any event on a "
        "finished connection is the identity; whatever kills arrive in any order session.close happens at most once (C10 invariant). "
        "Computed in Coq: a kill of either kind before every event of a reference conversation. Tie: one and two kills at every "
        "script position of a reference program on the real connection + random walks, replayed on the model; grammar oracle.",
   design="6/C09",
   note="Known open finding (kill-after-terminal-packet) recorded with its refutation theorem c09_kill_query_after_terminal_packet_refuted. "
        "Socket back-pressure is the fake writer's paused flag.",
   technique="Coq proof (state-independent lemmas + invariant by induction over event lists + vm_compute placements) + lock-step correspondence"),
 "C10": dict(
   text="Proved for EVERY event list (commands, clean / mid-packet disconnects, bad sequence ids, socket failures, pauses, kills, "
        "application results and exceptions from any callback, in any order): session.close is called at most once and only for an "
        "initialised session; when the task has ended it was called exactly once iff the session was initialised; while the task is "
        "alive the count is 0 outside and 1 inside the finally block; writer.close and control.remove are emitted exactly once, "
        "exactly when the task ends. Tie: life-cycle skeletons regenerated; disconnect / failure / exception at every script position "
        "of a reference conversation and pairs, replayed on the model; life-cycle oracle on the implementation.",
   design="6/C10",
   note="Fuel exhaustion of the model (state Stuck) is covered by a weaker invariant (close at most once); that Stuck is never reached is "
        "validated by the correspondence runs, not proved. 'Socket closed' is writer.close() on the fake writer.",
   technique="Coq proof (per-frame invariant lifted through throw/exec_op/end_plan, induction on fuel and over the event list) + lock-step correspondence"),
 "C11": dict(
   text="Proved for every result (rows, waits, a raising source), every fetch size and every sequence of fetch sizes: one fetch writes the "
        "next min(want, rows left) rows in order and pulls exactly those; the concatenation of all fetches is the prefix "
        "0..min(total requested, rows)-1 of the result; last-row-sent is flagged exactly on a fetch that could not be filled; the "
        "packets form a response of the grammar. Tie: exhaustive n<=4/6 x all fetch-size sequences, random programs with several "
        "statements, reset / re-execute / close anywhere, replayed on Model/Conn.v.",
   design="6/C11",
   note="Rows are recognised by the index the scripted source writes into them; independence of cursors of different statements is "
        "validated by the lock-step runs.",
   technique="Coq proof (induction over the cursor's item list and over the list of fetch sizes) + translator facts + lock-step correspondence"),
 "C08": dict(
   text="Proved over Model/Multi.v (a finite map of independent connection machines, one event per event-loop iteration): frame - an "
        "iteration of connection i changes no other connection and emits nothing for it; projection - for EVERY interleaving of the "
        "connections' events each connection ends in the state and produces the outputs it produces alone on its own events "
        "(induction over the interleaving). The product construction is tied to the code by a translator audit re-run on every "
        "check: every module-/class-level mutable container is listed and no function writes to one; stream, session (own variable "
        "store) and connection (own statement table) are created per socket. Differential runs: K=2..4 stateful programs under "
        "PRNG schedules vs. the same programs alone, byte for byte.",
   design="6/C08",
   note="Aliasing through objects the application injects is outside the library. lru_cache on parse_timezone is a memo of a pure function. "
        "The audit is syntactic (ast): writes through aliases it cannot resolve are covered only by the differential runs.",
   technique="Coq proof (frame + projection by induction over interleavings) + translator shared-state audit + differential schedules"),
 "C12": dict(
   text="Proved for every source (any length, rows / waits / raise): after ANY write the library buffer holds fewer than B bytes or is "
        "empty; pulled = handed + buffered rows + rows in flight is preserved by every operation (pull +1, row write -1); in the text "
        "protocol, the binary protocol and cursor fetches at most ONE pulled row is ever waiting to be written; a source that never "
        "suspends is interrupted by a cooperative yield after at most BATCH+1 rows from every position. B, BATCH and the "
        "flush rule are regenerated from stream.py/utils.py. Tie: pause/resume before every event of streamed results in the three "
        "protocols with instrumented sources, replayed on Model/Conn.v incl. its pulled/handed counters; cross-connection PING.",
   design="6/C12",
   note="Open finding inferred-null-column-peek (bare column names with an always-NULL column: unbounded peek). Transport buffering after "
        "writer.write is not modelled; 'accepts' means drain() returns. The composition over whole executions is validated by lock-step.",
   technique="Coq proof (per-operation invariants, induction over the source's item list, modular arithmetic for the yield bound) + lock-step correspondence"),
 "C02": dict(
   text="Proved for EVERY function H with 20-byte output (nothing about SHA-1 is assumed): the scramble of the account's password under "
        "the issued nonce is accepted for every password and nonce; acceptance <=> the response has at least 20 bytes and its first 20 XOR H(nonce ++ stored) are a "
        "pre-image of the stored secret (bytes beyond 20 ignored); a response shorter than 20 bytes never accepts; a malformed stored hash never accepts; a response accepted under "
        "two different nonces exhibits a collision of H; every acceptance goes through the quick path, the current or the secondary "
        "password; XOR involution; every nonce character is NUL-free; the handshake's 8+13 split is lossless. Tie: function shapes "
        "and the nonce alphabet regenerated from auth.py/utils.py; password_matches run with a Gallina SHA-1 (checked against "
        "hashlib) on accounts x nonces x responses incl. every single-bit corruption and truncation; the four routes through the "
        "real connection.",
   design="6/C02",
   note="Freshness of nonces rests on random.SystemRandom (distinctness is a test). Clear-password / no-login decisions are checked on the "
        "implementation; 'user = the identity the plugin vouched for' is checked through the four routes.",
   technique="Coq proof over an abstract hash (algebra of XOR, collision argument) + translator facts + vm_compute correspondence with a Gallina SHA-1"),
 "C05": dict(
   text="Proved: the duration decomposition (sign, hours, minutes, seconds, microseconds) is lossless for every timedelta; binary TIME "
        "decodes to the application's duration (reference decoder from the protocol text); integers of every width round-trip in "
        "two's complement and in decimal text; text rows decode to the same cells for every column count, NULL pattern and cell "
        "length; the binary NULL bitmap (offset 2) is read back for every column count; length-prefixed strings of every length; "
        "type inference by peeking preserves the row list and the column count. Tie: encoder tables and bodies regenerated from "
        "results.py/packets.py; every type x domain values byte-for-byte against the model, the Coq decoders applied to the "
        "implementation's bytes, rows with every NULL pattern, inference on random shapes with duplicate names.",
   design="6/C05",
   note="repr(float), IEEE packing and the character-set codecs are CPython's (passed through). Text TIME decoding and date/datetime decoding "
        "are validated by the correspondence runs (decoders evaluated in Coq on the implementation's bytes), not yet theorems.",
   technique="Coq proof (arithmetic of div/mod, two's complement, bitmap packing, induction over rows) + translator facts + vm_compute correspondence"),
}

PENDING = {}

def main():
    checks = []
    for pid, c in sorted(CLAIMED.items()):
        checks.append(dict(
            property_id=pid,
            quick_cmd=f"./check {pid} quick",
            thorough_cmd=f"./check {pid} thorough",
            evidence_file=f"/verif/evidence/{pid}.json",
            replay_cmd_template=f"./check {pid} --replay {{path}}",
            engine="coq-model",
            level_claimed=dict(category="proof", text=c["text"], design_ref=c["design"]),
            level_note=c["note"],
            technique=c["technique"],
        ))
    allp = [f"C{i:02d}" for i in range(1, 19)]
    na = [dict(property_id=p, reason=PENDING.get(p, "check not built yet in this revision of /verif (planned: see DESIGN.md section 7); no technique other than Coq proof is substituted"))
          for p in allp if p not in CLAIMED]
    m = dict(
        version=1,
        setup_cmd="./check --setup",
        hooks=dict(guard="MYSQL_MIMIC_VERIF", enable="no source hooks: all instrumentation is external (harness/impl.py)",
                   baseline_off_cmd="cd /repo && /venv/bin/python -m pytest -ra -q -p no:cacheprovider --timeout=900 --continue-on-collection-errors",
                   source_commits=[], add_only=True),
        engines=[dict(name="coq-model", path="/verif/coq", serves_properties=sorted(CLAIMED),
                      kind_free_text="Coq 8.16 development (Model/, Proofs/, Props/) + Gen/Facts.v regenerated from /repo + Python correspondence harness evaluating the model with vm_compute")],
        checks=checks,
        not_applicable=na,
        notes="See DESIGN.md. known_findings.json lists repaired and open defects.",
    )
    with open(os.path.join(HERE, "MANIFEST.json"), "w") as f:
        json.dump(m, f, indent=1)

if __name__ == "__main__":
    main()
