"""Refreshes the findings and seeds tables of DESIGN.md from known_findings.json and seeded/*/meta.json."""
import glob, json, os, re
HERE = os.path.dirname(os.path.dirname(os.path.abspath(__file__)))
kf = json.load(open(os.path.join(HERE, "known_findings.json")))["findings"]


def findings_table():
    rows = ["| property | key | status | /repo commit | what failed (witness in known_findings.json) |", "|---|---|---|---|---|"]
    for f in kf:
        what = f["what"]
        if what.startswith("fixed: "):
            what = what[7:]
        what = what.replace("property=%s " % f["property"], "").replace(f.get("commit", "@@") + " ", "")
        rows.append(f"| {f['property']} | {f['key']} | {f['status']} | {f.get('commit', '-')} | {what[:330]} |")
    return "\n".join(rows)


def seeds_table():
    rows = ["| seed | the change, and what it needs to show | which check caught it (and what had to be strengthened) |", "|---|---|---|"]
    for m in sorted(glob.glob(os.path.join(HERE, "seeded/*/meta.json"))):
        j = json.load(open(m))
        cb = j['caught_by'] + ((" **Retired**: " + j['retired']) if j.get('retired') else "")
        rows.append(f"| {m.split('/')[-2]} | {j['needs_to_manifest']} | {cb} |")
    return "\n".join(rows)


p = os.path.join(HERE, "DESIGN.md")
s = open(p).read()
s = re.sub(r"\| property \| key \| status \|.*?\n\n", lambda m: findings_table() + "\n\n", s, count=1, flags=re.S)
s = re.sub(r"\| seed \| the change, and what it needs to show \|.*?\n\n", lambda m: seeds_table() + "\n\n", s, count=1, flags=re.S)
open(p, "w").write(s)
