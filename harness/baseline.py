"""Runs the repository's pinned test suite and compares the passing set with /root/.vp/BASELINE.json stable_pass."""
import json, subprocess, sys, xml.etree.ElementTree as ET, os, tempfile
out = tempfile.mktemp(suffix=".xml", dir="/verif/.work") if os.path.isdir("/verif/.work") else tempfile.mktemp(suffix=".xml")
env = dict(os.environ)
env.pop("MYSQL_MIMIC_VERIF", None)
subprocess.run(f"cd /repo && /venv/bin/python -m pytest -ra -q -p no:cacheprovider --timeout=900 --continue-on-collection-errors --junitxml={out}",
               shell=True, stdout=subprocess.DEVNULL, stderr=subprocess.DEVNULL, env=env)
base = set(json.load(open("/root/.vp/BASELINE.json"))["stable_pass"])
passed = set()
for tc in ET.parse(out).getroot().iter("testcase"):
    if not any(ch.tag in ("failure", "error", "skipped") for ch in tc):
        passed.add(f"{tc.get('classname')}::{tc.get('name')}")
os.remove(out)
missing = sorted(base - passed)
print(f"baseline stable_pass={len(base)} passed_now={len(passed)} missing={len(missing)}")
for m in missing[:20]:
    print("  MISSING", m)
sys.exit(1 if missing else 0)
